#!/bin/bash
# audit/run_all.sh [pattern]  - run every mutant of audit/MAP against the checks named there
cd "$(dirname "$0")"
PAT="${1:-.}"
while read -r m ids; do
    [ -z "$m" ] && continue
    echo "$m" | grep -q "$PAT" || continue
    f=$(ls mutants/$m*.patch 2>/dev/null | head -1)
    [ -z "$f" ] && { echo "RESULT $m NO-PATCH"; continue; }
    ./run_mutant.sh "$f" "$ids" --with-tests 2>&1 | grep '^RESULT'
done < MAP
