#!/bin/bash
# audit/run_mutant.sh <patch-file> <ID>[,<ID>...] [--with-tests]
# Applies one patch to a scratch copy of /repo (outside /repo and /verif), optionally verifies that
# the pinned test suite still passes, runs ./check <ID> quick against the copy, reports whether the
# check caught it, and removes the scratch copy with its build output.
set -u
PATCH="$(readlink -f "$1")"; IDS="$2"; WITH_TESTS="${3:-}"
HERE="$(cd "$(dirname "${BASH_SOURCE[0]}")/.." && pwd)"
S="$(mktemp -d /tmp/lace-audit-XXXXXX)"
trap 'rm -rf "$S"' EXIT
rsync -a --exclude target --exclude .verif /repo/ "$S/"
if ! git -C "$S" apply "$PATCH" 2>"$S/.apply.log"; then echo "RESULT $(basename "$PATCH") ids=$IDS PATCH-DOES-NOT-APPLY: $(head -2 "$S/.apply.log")"; exit 3; fi
if [ "$WITH_TESTS" = "--with-tests" ]; then
    if ! ( cd "$S" && cargo test --offline --workspace --no-fail-fast >"$S/.test.log" 2>&1 ); then
        echo "RESULT $(basename "$PATCH") ids=$IDS TESTS-FAIL (mutant is not a valid seeded change)"; grep -E "^test .* FAILED|error(\[|:)" "$S/.test.log" | head -5; exit 4
    fi
fi
# warm the scratch target with the already built dependencies
mkdir -p "$S/.verif/target"
[ -d "$HERE/target/A" ] && cp -r "$HERE/target/A" "$S/.verif/target/A"
[ -d "$HERE/target/cli" ] && cp -r "$HERE/target/cli" "$S/.verif/target/cli"
rc_all=0
for ID in ${IDS//,/ }; do
    out=$(LACE_REPO="$S" "$HERE/check" "$ID" quick 2>&1); rc=$?
    sigs=$(echo "$out" | grep -oE '^violation \[[^]]*\]' | sort | uniq -c | head -5 | tr '\n' ';')
    case $rc in
        1) echo "RESULT $(basename "$PATCH") $ID CAUGHT $sigs" ;;
        0) echo "RESULT $(basename "$PATCH") $ID MISSED"; rc_all=1 ;;
        *) echo "RESULT $(basename "$PATCH") $ID INCONCLUSIVE rc=$rc: $(echo "$out" | tail -3 | tr '\n' ' ')"; rc_all=2 ;;
    esac
done
exit $rc_all
