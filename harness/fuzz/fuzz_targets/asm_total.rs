//! C05: any UTF-8 text yields an image or a well-formed diagnostic (libFuzzer, coverage-guided).
//! The semantic oracle is inside the target: no panic (libFuzzer aborts on one), and every label
//! span of a diagnostic denotes a substring of the source and the diagnostic renders.
#![no_main]
use libfuzzer_sys::fuzz_target;

fn init() {
    static ONCE: std::sync::Once = std::sync::Once::new();
    ONCE.call_once(|| {
        // the second byte of the input selects the feature setting; libFuzzer runs one thread,
        // and features can be initialised once per thread: run both settings on two threads
        let _ = miette::set_hook(Box::new(|_| {
            Box::new(miette::MietteHandlerOpts::new().context_lines(lace::DIAGNOSTIC_CONTEXT_LINES).color(false).build())
        }));
    });
}

fn check(text: String, stack: bool) {
    // a fresh thread per setting keeps lace's thread-local state (features, symbol table) clean
    let r = std::thread::spawn(move || {
        let f: lace::features::Features = if stack { "stack" } else { "" }.parse().unwrap();
        lace::features::init(f);
        let mut source = lace::StaticSource::new(text);
        let src = source.src();
        let outcome = (|| -> Result<(), miette::Report> {
            let parser = lace::AsmParser::new(src)?;
            let mut air = parser.parse()?;
            air.backpatch()?;
            for i in 0..air.len() {
                air.get(i).emit()?;
            }
            Ok(())
        })();
        if let Err(report) = outcome {
            if let Some(labels) = report.labels() {
                for l in labels {
                    assert!(src.get(l.offset()..l.offset() + l.len()).is_some(), "C05: diagnostic span {}+{} is not a substring of the source", l.offset(), l.len());
                }
            }
            let rendered = format!("{:?}", report);
            assert!(!rendered.trim().is_empty(), "C05: empty diagnostic");
        }
        lace::reset_state();
        source.reclaim();
    })
    .join();
    if r.is_err() {
        // the panic message was printed by the default hook; make libFuzzer record the input
        std::process::abort();
    }
}

fuzz_target!(|data: &[u8]| {
    init();
    if data.is_empty() {
        return;
    }
    let stack = data[0] & 1 == 1;
    if let Ok(text) = std::str::from_utf8(&data[1..]) {
        // the known finding (miette cannot render label spans wider than 65,535 columns) needs a
        // line longer than any input libFuzzer produces here (-max_len is far below that)
        check(text.to_string(), stack);
    }
});
