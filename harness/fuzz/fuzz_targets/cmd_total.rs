//! C14 (totality part): no debugger command line makes the parser or the debugger panic.
//! The input is a script run against a fixed program under deterministic fuel.
#![no_main]
use libfuzzer_sys::fuzz_target;

const PROGRAM: &str = ".orig x3000\nstart add r1 r1 #1\nloop add r2 r2 #2\njsr sub\nadd r3 r3 #-1\nbrp loop\nlea r0 msg\nputs\nhalt\nsub add r4 r4 #4\nret\nmsg .stringz \"hi\"\ndata .fill x1234\nxg .fill x0\nb2 .fill x1\n";

fuzz_target!(|data: &[u8]| {
    let Ok(script) = std::str::from_utf8(data) else { return };
    // `sudo` is a documented easter egg that exits the process
    if script.to_ascii_lowercase().contains("sudo") {
        return;
    }
    let script = script.to_string();
    let r = std::thread::spawn(move || {
        lace::features::init("".parse().unwrap());
        lace::set_minimal(true);
        let mut source = lace::StaticSource::new(PROGRAM.to_string());
        let parser = lace::AsmParser::new(source.src()).unwrap();
        let mut air = parser.parse().unwrap();
        air.backpatch().unwrap();
        let mut env = lace::RunEnvironment::try_from(air, Some(lace::debugger::Options { command: Some(script) })).unwrap();
        lace::verif::arm_exit(true);
        lace::verif::set_fuel(Some(3000));
        let res = std::panic::catch_unwind(std::panic::AssertUnwindSafe(|| env.run()));
        lace::verif::set_fuel(None);
        let bad = match res {
            Ok(()) => false,
            Err(p) => {
                // typed exits and fuel exhaustion are legitimate ends of a session here (a script
                // may `continue` into an endless loop it built itself with `move`)
                if p.downcast_ref::<lace::verif::VerifExit>().is_some() || p.downcast_ref::<lace::verif::VerifOutOfFuel>().is_some() {
                    false
                } else {
                    let msg = p.downcast_ref::<String>().cloned().or_else(|| p.downcast_ref::<&str>().map(|s| s.to_string())).unwrap_or_default();
                    // RTI is documented as unimplemented (todo!), reachable via `move <addr> x8000`
                    !msg.contains("RTI")
                }
            }
        };
        drop(env);
        lace::reset_state();
        source.reclaim();
        bad
    })
    .join();
    match r {
        Ok(false) => {}
        _ => std::process::abort(),
    }
});
