//! Coverage-guided stage for the properties whose checks run in-process: the input is the random
//! tape of the property's own proptest generators (PassThrough RNG), the verdict is the strict
//! judge used for replay files. The property is named by VERIF_FUZZ_ID. See `fuzzmode.rs`.
#![no_main]
use libfuzzer_sys::fuzz_target;

fuzz_target!(|data: &[u8]| {
    static ID: std::sync::OnceLock<String> = std::sync::OnceLock::new();
    let id = ID.get_or_init(|| std::env::var("VERIF_FUZZ_ID").expect("VERIF_FUZZ_ID names the property"));
    lace_verif::fuzzmode::entry(id, data);
});
