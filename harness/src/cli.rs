//! Process-level driver for the plain `lace` binary (built from /repo with the guard OFF).

use std::io::Write;
use std::path::{Path, PathBuf};
use std::process::{Command, Stdio};
use std::sync::atomic::{AtomicU64, Ordering};

pub struct TempDir(pub PathBuf);

static COUNTER: AtomicU64 = AtomicU64::new(0);

impl TempDir {
    pub fn new() -> TempDir {
        let base = std::env::var("VERIF_SCRATCH").map(PathBuf::from).unwrap_or_else(|_| {
            PathBuf::from(std::env::var("VERIF_DIR").unwrap_or_else(|_| "/verif".into())).join("target").join("run")
        });
        let n = COUNTER.fetch_add(1, Ordering::SeqCst);
        let p = base.join(format!("cli-{}-{n}", std::process::id()));
        let _ = std::fs::remove_dir_all(&p);
        std::fs::create_dir_all(&p).expect("create temp dir");
        TempDir(p)
    }
    pub fn path(&self) -> &Path {
        &self.0
    }
    pub fn write(&self, name: &str, bytes: &[u8]) -> PathBuf {
        let p = self.0.join(name);
        std::fs::write(&p, bytes).expect("write temp file");
        p
    }
}

impl Drop for TempDir {
    fn drop(&mut self) {
        // a read-only file inside must not stop the clean-up
        let _ = Command::new("chmod").arg("-R").arg("u+w").arg(&self.0).status();
        let _ = std::fs::remove_dir_all(&self.0);
    }
}

pub fn lace_bin(release: bool) -> PathBuf {
    let var = if release { "VERIF_CLI_REL" } else { "VERIF_CLI_DEV" };
    PathBuf::from(std::env::var(var).unwrap_or_else(|_| "/verif/target/cli/debug/lace".into()))
}

#[derive(Debug, Clone)]
pub struct Run {
    pub code: Option<i32>,
    pub signal: Option<i32>,
    pub stdout: Vec<u8>,
    pub stderr: Vec<u8>,
    pub timed_out: bool,
    /// the process was found blocked for good: its only thread waiting on a futex (a lock) that no
    /// other thread exists to release, using no CPU time - decided from the process state, not
    /// from a time limit - and was killed
    pub deadlocked: bool,
}

impl Run {
    pub fn panicked(&self) -> bool {
        self.code == Some(101) || self.signal.is_some() || String::from_utf8_lossy(&self.stderr).contains("panicked at")
    }
    pub fn ok(&self) -> bool {
        self.code == Some(0)
    }
    /// exited with an error status that is a report, not a crash
    pub fn clean_error(&self) -> bool {
        matches!(self.code, Some(c) if c != 0) && !self.panicked()
    }
    pub fn brief(&self) -> String {
        format!(
            "exit {:?} signal {:?}{} stdout {:?} stderr {:?}",
            self.code,
            self.signal,
            if self.deadlocked { " DEADLOCKED" } else if self.timed_out { " TIMED OUT" } else { "" },
            String::from_utf8_lossy(&self.stdout).chars().take(300).collect::<String>(),
            String::from_utf8_lossy(&self.stderr).chars().take(400).collect::<String>()
        )
    }
}

/// Run `lace <args>` in `cwd` with `stdin`. A watchdog kills the child after `limit_s` seconds
/// (infrastructure only: a timeout is reported as such, never as a verdict by itself).
pub fn lace(args: &[&str], cwd: &Path, stdin: &[u8], release: bool, limit_s: u64) -> Run {
    lace_fsize(args, cwd, stdin, release, limit_s, None)
}

/// `lace()` with a limit on the size of any file the process writes (RLIMIT_FSIZE, SIGXFSZ
/// ignored): a write beyond it is cut short and then fails, as on a disk that fills up half-way.
pub fn lace_fsize(args: &[&str], cwd: &Path, stdin: &[u8], release: bool, limit_s: u64, fsize: Option<u64>) -> Run {
    use std::os::unix::process::ExitStatusExt;
    use std::os::unix::process::CommandExt;
    let mut cmd = Command::new(lace_bin(release));
    cmd.args(args)
        .current_dir(cwd)
        .env("NO_COLOR", "1")
        .env_remove("CLICOLOR_FORCE")
        .env("RUST_BACKTRACE", "0")
        .stdin(Stdio::piped())
        .stdout(Stdio::piped())
        .stderr(Stdio::piped());
    unsafe {
        // the child must not outlive a worker that is killed or gives up
        cmd.pre_exec(move || {
            libc::prctl(libc::PR_SET_PDEATHSIG, libc::SIGKILL);
            if let Some(n) = fsize {
                libc::signal(libc::SIGXFSZ, libc::SIG_IGN);
                let lim = libc::rlimit { rlim_cur: n, rlim_max: n };
                libc::setrlimit(libc::RLIMIT_FSIZE, &lim);
            }
            Ok(())
        });
    }
    let mut child = cmd.spawn().expect("spawn lace");
    // (fed from a thread of its own: a child that answers every input line fills its output
    // pipes long before a large input is written)
    let feeder = {
        let mut si = child.stdin.take().unwrap();
        let data = stdin.to_vec();
        std::thread::spawn(move || {
            let _ = si.write_all(&data);
        })
    };
    let pid = child.id();
    let done = std::sync::Arc::new(std::sync::atomic::AtomicBool::new(false));
    let done2 = done.clone();
    let timed = std::sync::Arc::new(std::sync::atomic::AtomicBool::new(false));
    let timed2 = timed.clone();
    let dead = std::sync::Arc::new(std::sync::atomic::AtomicBool::new(false));
    let dead2 = dead.clone();
    let guard = std::thread::spawn(move || {
        let t0 = std::time::Instant::now();
        let mut blocked_samples = 0u32;
        let mut last_cpu = u64::MAX;
        let mut next_probe = 1500u128;
        while !done2.load(Ordering::SeqCst) {
            if t0.elapsed().as_secs() >= limit_s {
                timed2.store(true, Ordering::SeqCst);
                unsafe {
                    libc::kill(pid as i32, libc::SIGKILL);
                }
                return;
            }
            if t0.elapsed().as_millis() >= next_probe {
                next_probe += 400;
                match blocked_on_futex(pid) {
                    Some(cpu) if cpu == last_cpu => blocked_samples += 1,
                    Some(cpu) => {
                        last_cpu = cpu;
                        blocked_samples = 1;
                    }
                    None => {
                        blocked_samples = 0;
                        last_cpu = u64::MAX;
                    }
                }
                if blocked_samples >= 4 {
                    dead2.store(true, Ordering::SeqCst);
                    unsafe {
                        libc::kill(pid as i32, libc::SIGKILL);
                    }
                    return;
                }
            }
            std::thread::sleep(std::time::Duration::from_millis(20));
        }
    });
    let out = child.wait_with_output().expect("wait lace");
    done.store(true, Ordering::SeqCst);
    let _ = guard.join();
    let _ = feeder.join();
    Run {
        code: out.status.code(),
        signal: out.status.signal(),
        stdout: out.stdout,
        stderr: out.stderr,
        timed_out: timed.load(Ordering::SeqCst) && !dead.load(Ordering::SeqCst),
        deadlocked: dead.load(Ordering::SeqCst),
    }
}

/// `Some(cpu ticks used so far)` when process `pid` has exactly one thread and that thread sits in
/// the futex system call (x86-64 number 202): it waits for a lock or condition that only another
/// thread of the same process could signal, and there is none.
fn blocked_on_futex(pid: u32) -> Option<u64> {
    let status = std::fs::read_to_string(format!("/proc/{pid}/status")).ok()?;
    let threads: u32 = status.lines().find_map(|l| l.strip_prefix("Threads:"))?.trim().parse().ok()?;
    if threads != 1 {
        return None;
    }
    let syscall = std::fs::read_to_string(format!("/proc/{pid}/syscall")).ok()?;
    if syscall.split_whitespace().next()? != "202" {
        return None;
    }
    let stat = std::fs::read_to_string(format!("/proc/{pid}/stat")).ok()?;
    let after = stat.rsplit_once(')')?.1;
    let f: Vec<&str> = after.split_whitespace().collect();
    // fields after the command name: state is f[0]; utime and stime are f[11], f[12]
    let utime: u64 = f.get(11)?.parse().ok()?;
    let stime: u64 = f.get(12)?.parse().ok()?;
    Some(utime + stime)
}

/// Run `lace <args>` with a pseudo-terminal as standard input (and controlling terminal) and type
/// `keys` into it, one key at a time, each only while the program has the terminal in raw mode
/// (i.e. is waiting for a key). stdout / stderr are pipes as in `lace()`. Returns the run and the
/// number of keys that were typed before the program ended.
pub fn lace_tty(args: &[&str], cwd: &Path, keys: &[Vec<u8>], release: bool, limit_s: u64) -> (Run, usize) {
    lace_tty_env(args, cwd, keys, release, limit_s, &[])
}

/// `lace_tty` with extra environment variables for the child.
pub fn lace_tty_env(args: &[&str], cwd: &Path, keys: &[Vec<u8>], release: bool, limit_s: u64, envs: &[(&str, &str)]) -> (Run, usize) {
    lace_term(args, cwd, &TermOpts { keys: Some(keys), piped_stdin: None, stdout_on_tty: false, decoys: &[], envs }, release, limit_s)
}

/// Which of the child's standard streams are the pseudo-terminal.
pub struct TermOpts<'a> {
    /// standard input is the terminal and these keys are typed (each once the previous one was read)
    pub keys: Option<&'a [Vec<u8>]>,
    /// standard input is a pipe holding these bytes (used when `keys` is `None`)
    pub piped_stdin: Option<&'a [u8]>,
    /// standard output is the terminal (what the program prints is then read from the master side)
    pub stdout_on_tty: bool,
    /// bytes typed into the terminal up front that nothing may read (the program's input is the pipe)
    pub decoys: &'a [u8],
    pub envs: &'a [(&'a str, &'a str)],
}

/// Run `lace <args>` with a pseudo-terminal as controlling terminal and as some of its standard
/// streams (see `TermOpts`). Returns the run and the number of typed keys that were read.
pub fn lace_term(args: &[&str], cwd: &Path, opts: &TermOpts, release: bool, limit_s: u64) -> (Run, usize) {
    use std::io::Read;
    use std::os::unix::io::FromRawFd;
    use std::os::unix::process::{CommandExt, ExitStatusExt};
    let (mut master, mut slave) = (0 as libc::c_int, 0 as libc::c_int);
    let rc = unsafe { libc::openpty(&mut master, &mut slave, std::ptr::null_mut(), std::ptr::null_mut(), std::ptr::null_mut()) };
    assert!(rc == 0, "openpty failed");
    // The terminal starts out (and is left, whenever the program restores it) in a mode without
    // line editing, echo, output translation or signal keys: a key typed while the program is not
    // reading simply waits in the queue, unmodified, as if the user had typed it a moment later.
    // That makes the pacing below a matter of flow control only, free of races with the program's
    // switches between raw and restored mode.
    unsafe {
        let mut t: libc::termios = std::mem::zeroed();
        if libc::tcgetattr(slave, &mut t) == 0 {
            libc::cfmakeraw(&mut t);
            libc::tcsetattr(slave, libc::TCSANOW, &t);
        }
    }
    let stdin_tty = opts.keys.is_some();
    let mut cmd = Command::new(lace_bin(release));
    cmd.args(args)
        .current_dir(cwd)
        .env("NO_COLOR", "1")
        .env_remove("CLICOLOR_FORCE")
        .env("RUST_BACKTRACE", "0")
        .env("TERM", "xterm")
        .envs(opts.envs.iter().map(|(k, v)| (k.to_string(), v.to_string())))
        .stdin(if stdin_tty { unsafe { Stdio::from_raw_fd(libc::dup(slave)) } } else { Stdio::piped() })
        .stdout(if opts.stdout_on_tty { unsafe { Stdio::from_raw_fd(libc::dup(slave)) } } else { Stdio::piped() })
        .stderr(Stdio::piped());
    let tty_fd: libc::c_int = if stdin_tty { 0 } else { 1 };
    unsafe {
        cmd.pre_exec(move || {
            // own session with the pty as controlling terminal, so that /dev/tty is the pty too
            libc::setsid();
            libc::ioctl(tty_fd, libc::TIOCSCTTY, 0);
            libc::prctl(libc::PR_SET_PDEATHSIG, libc::SIGKILL);
            Ok(())
        });
    }
    let mut child = cmd.spawn().expect("spawn lace on a pty");
    // (the parent keeps the slave open only to ask how many typed bytes are still unread)
    let slave_probe = slave;
    unsafe {
        let fl = libc::fcntl(master, libc::F_GETFL);
        libc::fcntl(master, libc::F_SETFL, fl | libc::O_NONBLOCK);
    }
    if let Some(mut si) = child.stdin.take() {
        use std::io::Write;
        let _ = si.write_all(opts.piped_stdin.unwrap_or(&[]));
    }
    if !opts.decoys.is_empty() {
        unsafe {
            libc::write(master, opts.decoys.as_ptr() as *const libc::c_void, opts.decoys.len());
        }
    }
    let so = child.stdout.take();
    let mut se = child.stderr.take().unwrap();
    let t_out = std::thread::spawn(move || {
        let mut v = Vec::new();
        if let Some(mut so) = so {
            let _ = so.read_to_end(&mut v);
        }
        v
    });
    let t_err = std::thread::spawn(move || {
        let mut v = Vec::new();
        let _ = se.read_to_end(&mut v);
        v
    });
    let t0 = std::time::Instant::now();
    let mut timed_out = false;
    let mut typed = 0usize;
    let mut tty_out: Vec<u8> = Vec::new();
    let mut drain = |fd: libc::c_int, sink: &mut Vec<u8>| {
        let mut buf = [0u8; 4096];
        loop {
            let n = unsafe { libc::read(fd, buf.as_mut_ptr() as *mut libc::c_void, buf.len()) };
            if n <= 0 {
                break;
            }
            sink.extend_from_slice(&buf[..n as usize]);
        }
    };
    let pending = |fd: libc::c_int| -> i32 {
        let mut n: libc::c_int = 0;
        unsafe {
            if libc::ioctl(fd, libc::FIONREAD, &mut n) != 0 {
                return -1;
            }
        }
        n
    };
    let keys: &[Vec<u8>] = opts.keys.unwrap_or(&[]);
    let status;
    loop {
        if let Ok(Some(st)) = child.try_wait() {
            status = Some(st);
            break;
        }
        if t0.elapsed().as_secs() >= limit_s {
            timed_out = true;
            let _ = child.kill();
            status = None;
            break;
        }
        drain(master, &mut tty_out);
        // the next key is typed once the previous one has been read by the program
        if typed < keys.len() && pending(slave_probe) == 0 {
            let k = &keys[typed];
            unsafe {
                libc::write(master, k.as_ptr() as *const libc::c_void, k.len());
            }
            typed += 1;
            continue;
        }
        std::thread::sleep(std::time::Duration::from_micros(200));
    }
    let st = match status {
        Some(s) => s,
        None => child.wait().expect("wait lace"),
    };
    drain(master, &mut tty_out);
    // keys (or decoys) still in the queue when the program ended were never read
    let unread = pending(slave_probe).max(0) as usize;
    let mut consumed = typed;
    let mut left = unread;
    while left > 0 && consumed > 0 {
        let l = keys[consumed - 1].len();
        if l > left {
            break;
        }
        left -= l;
        consumed -= 1;
    }
    unsafe {
        libc::close(master);
        libc::close(slave_probe);
    }
    let piped_out = t_out.join().unwrap_or_default();
    let stderr = t_err.join().unwrap_or_default();
    let stdout = if opts.stdout_on_tty { tty_out } else { piped_out };
    // with decoys: `consumed` reports how many decoy bytes were read instead (should be 0)
    let consumed = if keys.is_empty() { opts.decoys.len().saturating_sub(unread) } else { consumed };
    (Run { code: st.code(), signal: st.signal(), stdout, stderr, timed_out, deadlocked: false }, consumed)
}

/// File stems for the process-level checks: what the tool does must not depend on how a file is
/// called. Variant 0-7: plain `prog`; then dotted stems, long ASCII, non-ASCII (2- and 3-byte
/// characters, short and longer than 64 bytes, behind 0-7 ASCII characters so that every byte
/// offset parity occurs), a blank, a leading dot.
pub fn stem(variant: u64) -> String {
    match variant % 28 {
        0..=7 => "prog".into(),
        8 => "prog.v2".into(),
        9 => "a.b.c".into(),
        10 => "x".repeat(100),
        11 => "né".into(),
        12 => "my prog".into(),
        13 => ".hidden".into(),
        14 => "日本語のプログラム".repeat(4),
        15 => "prog.tar.gz.old".into(),
        16 => "UPPER.Case".into(),
        17 => "ß".repeat(33),
        18 => format!("{}{}", "dir-like-name.", "ü".repeat(31)),
        19 => "€".repeat(22),
        k => format!("{}{}", "a".repeat(k as usize - 20), "é".repeat(40)),
    }
}

/// Run `lace <args>` in `cwd` where `<cwd>/<fifo>` is a named pipe through which `bytes` are
/// delivered once the program opens it (what a file holds must not depend on what `stat` says about
/// it: a pipe reports length 0). If the program never opens the pipe, nothing is written.
pub fn lace_fifo(args: &[&str], cwd: &Path, fifo: &str, bytes: &[u8], release: bool, limit_s: u64) -> Run {
    let path = cwd.join(fifo);
    let cpath = std::ffi::CString::new(path.to_string_lossy().as_bytes()).unwrap();
    let rc = unsafe { libc::mkfifo(cpath.as_ptr(), 0o600) };
    assert!(rc == 0, "mkfifo failed");
    let stop = std::sync::Arc::new(std::sync::atomic::AtomicBool::new(false));
    let stop2 = stop.clone();
    let data = bytes.to_vec();
    let writer = std::thread::spawn(move || {
        // a reader must have the pipe open before a non-blocking open for writing succeeds
        while !stop2.load(Ordering::SeqCst) {
            let fd = unsafe { libc::open(cpath.as_ptr(), libc::O_WRONLY | libc::O_NONBLOCK | libc::O_CLOEXEC) };
            if fd >= 0 {
                unsafe {
                    let fl = libc::fcntl(fd, libc::F_GETFL);
                    libc::fcntl(fd, libc::F_SETFL, fl & !libc::O_NONBLOCK);
                    libc::signal(libc::SIGPIPE, libc::SIG_IGN);
                    let mut off = 0usize;
                    while off < data.len() {
                        let n = libc::write(fd, data[off..].as_ptr() as *const libc::c_void, data.len() - off);
                        if n <= 0 {
                            break;
                        }
                        off += n as usize;
                    }
                    libc::close(fd);
                }
                return;
            }
            std::thread::sleep(std::time::Duration::from_micros(500));
        }
    });
    let run = lace(args, cwd, &[], release, limit_s);
    stop.store(true, Ordering::SeqCst);
    let _ = writer.join();
    run
}
