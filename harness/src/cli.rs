//! Process-level driver for the plain `lace` binary (built from /repo with the guard OFF).

use std::io::Write;
use std::path::{Path, PathBuf};
use std::process::{Command, Stdio};
use std::sync::atomic::{AtomicU64, Ordering};

pub struct TempDir(pub PathBuf);

static COUNTER: AtomicU64 = AtomicU64::new(0);

impl TempDir {
    pub fn new() -> TempDir {
        let base = std::env::var("VERIF_SCRATCH").map(PathBuf::from).unwrap_or_else(|_| {
            PathBuf::from(std::env::var("VERIF_DIR").unwrap_or_else(|_| "/verif".into())).join("target").join("run")
        });
        let n = COUNTER.fetch_add(1, Ordering::SeqCst);
        let p = base.join(format!("cli-{}-{n}", std::process::id()));
        let _ = std::fs::remove_dir_all(&p);
        std::fs::create_dir_all(&p).expect("create temp dir");
        TempDir(p)
    }
    pub fn path(&self) -> &Path {
        &self.0
    }
    pub fn write(&self, name: &str, bytes: &[u8]) -> PathBuf {
        let p = self.0.join(name);
        std::fs::write(&p, bytes).expect("write temp file");
        p
    }
}

impl Drop for TempDir {
    fn drop(&mut self) {
        // a read-only file inside must not stop the clean-up
        let _ = Command::new("chmod").arg("-R").arg("u+w").arg(&self.0).status();
        let _ = std::fs::remove_dir_all(&self.0);
    }
}

pub fn lace_bin(release: bool) -> PathBuf {
    let var = if release { "VERIF_CLI_REL" } else { "VERIF_CLI_DEV" };
    PathBuf::from(std::env::var(var).unwrap_or_else(|_| "/verif/target/cli/debug/lace".into()))
}

#[derive(Debug, Clone)]
pub struct Run {
    pub code: Option<i32>,
    pub signal: Option<i32>,
    pub stdout: Vec<u8>,
    pub stderr: Vec<u8>,
    pub timed_out: bool,
}

impl Run {
    pub fn panicked(&self) -> bool {
        self.code == Some(101) || self.signal.is_some() || String::from_utf8_lossy(&self.stderr).contains("panicked at")
    }
    pub fn ok(&self) -> bool {
        self.code == Some(0)
    }
    /// exited with an error status that is a report, not a crash
    pub fn clean_error(&self) -> bool {
        matches!(self.code, Some(c) if c != 0) && !self.panicked()
    }
    pub fn brief(&self) -> String {
        format!(
            "exit {:?} signal {:?}{} stdout {:?} stderr {:?}",
            self.code,
            self.signal,
            if self.timed_out { " TIMED OUT" } else { "" },
            String::from_utf8_lossy(&self.stdout).chars().take(300).collect::<String>(),
            String::from_utf8_lossy(&self.stderr).chars().take(400).collect::<String>()
        )
    }
}

/// Run `lace <args>` in `cwd` with `stdin`. A watchdog kills the child after `limit_s` seconds
/// (infrastructure only: a timeout is reported as such, never as a verdict by itself).
pub fn lace(args: &[&str], cwd: &Path, stdin: &[u8], release: bool, limit_s: u64) -> Run {
    use std::os::unix::process::ExitStatusExt;
    let mut child = Command::new(lace_bin(release))
        .args(args)
        .current_dir(cwd)
        .env("NO_COLOR", "1")
        .env_remove("CLICOLOR_FORCE")
        .env("RUST_BACKTRACE", "0")
        .stdin(Stdio::piped())
        .stdout(Stdio::piped())
        .stderr(Stdio::piped())
        .spawn()
        .expect("spawn lace");
    {
        let mut si = child.stdin.take().unwrap();
        let _ = si.write_all(stdin);
    }
    let pid = child.id();
    let done = std::sync::Arc::new(std::sync::atomic::AtomicBool::new(false));
    let done2 = done.clone();
    let timed = std::sync::Arc::new(std::sync::atomic::AtomicBool::new(false));
    let timed2 = timed.clone();
    let guard = std::thread::spawn(move || {
        let t0 = std::time::Instant::now();
        while !done2.load(Ordering::SeqCst) {
            if t0.elapsed().as_secs() >= limit_s {
                timed2.store(true, Ordering::SeqCst);
                unsafe {
                    libc::kill(pid as i32, libc::SIGKILL);
                }
                return;
            }
            std::thread::sleep(std::time::Duration::from_millis(20));
        }
    });
    let out = child.wait_with_output().expect("wait lace");
    done.store(true, Ordering::SeqCst);
    let _ = guard.join();
    Run {
        code: out.status.code(),
        signal: out.status.signal(),
        stdout: out.stdout,
        stderr: out.stderr,
        timed_out: timed.load(Ordering::SeqCst),
    }
}
