//! Shared machinery for the debugger properties (C09-C13, C15-C17): command generation against
//! a built program, running a scripted lace session in-process, running RefDbg, comparing.

use proptest::prelude::*;
use serde::{Deserialize, Serialize};

use crate::engine::Obs;
use crate::lacebox::{self, Load, Outcome, RunSpec, Session, Stop};
use crate::proggen::{self, Built, ProgSpec};
use crate::refasm::{self, Layout, Lit, Op, Operand, RefImage, Stmt, Verdict};
use crate::refdbg::{parse_reg_dumps, Cmd, Dbg, Effect, Loc, PLoc, Pause, RegDump};
use crate::refvm::{decode_out, match_out, out_to_string, Out, Vm};

#[derive(Clone, Debug, Serialize, Deserialize, PartialEq, Eq, Hash)]
pub struct RawCmd {
    pub kind: u8,
    pub a: u16,
    pub b: u16,
    pub c: i16,
    pub alias: u8,
}

pub fn raw_cmd() -> impl Strategy<Value = RawCmd> {
    (any::<u8>(), any::<u16>(), any::<u16>(), any::<i16>(), any::<u8>()).prop_map(|(kind, a, b, c, alias)| RawCmd { kind, a, b, c, alias })
}

/// A program prepared for a debugger session.
pub struct Prog {
    pub built: Built,
    pub img: RefImage,
    pub orig: u16,
    pub text: String,
    pub rendered: refasm::Rendered,
    /// label -> absolute address
    pub symbols: Vec<(String, u16)>,
    /// absolute addresses of `.break` breakpoints
    pub breaks: Vec<u16>,
}

pub fn prepare(spec: &ProgSpec, layout: Layout) -> Result<Prog, &'static str> {
    prepare_built(proggen::build(spec), layout)
}

pub fn prepare_built(built: Built, layout: Layout) -> Result<Prog, &'static str> {
    let img = match refasm::judge(&built.program, built.stack) {
        Verdict::Accept(img) => img,
        Verdict::Reject(w) | Verdict::Unspecified(w) | Verdict::Either(_, w) => return Err(w),
    };
    let orig = img.orig.unwrap_or(0x3000);
    if orig as usize + img.words.len() + 1 > 0x10000 {
        return Err("image does not fit");
    }
    let rendered = refasm::render(&built.program, layout);
    let symbols = img.labels.iter().map(|(n, i)| (n.clone(), orig.wrapping_add(*i as u16))).collect();
    let breaks = img.breaks.iter().map(|b| orig.wrapping_add(*b)).collect();
    Ok(Prog { text: rendered.text.clone(), rendered, built, orig, symbols, breaks, img })
}

fn idx(sel: u16, n: usize) -> usize {
    (sel as usize * n) >> 16
}

/// Which kinds of locations / values a generator may produce.
#[derive(Clone, Copy, PartialEq, Eq)]
pub enum LocMode {
    /// addresses of instructions of the program (plus a few around it)
    Code,
    /// anything: boundaries of user space, data, stack area, far away
    Any,
}

pub fn make_loc(p: &Prog, a: u16, b: u16, c: i16, mode: LocMode) -> Loc {
    // (a = 0xFFFF: the word of the program with index b, exactly - for histories that need two
    // addresses a chosen distance apart)
    if a == 0xFFFF {
        return Loc::Abs(p.orig.wrapping_add(b % 512), 0);
    }
    let n = p.img.words.len();
    let code_addr = |sel: u16| p.orig.wrapping_add(idx(sel, n + 2) as u16);
    match (mode, a % 8) {
        (_, 0) | (_, 1) | (LocMode::Code, 2) => Loc::Abs(code_addr(b), (a >> 3) as u8 % 6),
        (_, 3) | (LocMode::Code, 4) if !p.symbols.is_empty() => {
            let (name, _) = &p.symbols[idx(b, p.symbols.len())];
            let off = match (mode, (a >> 3) % 4) {
                (_, 0) | (_, 1) => 0,
                (LocMode::Code, _) => (c % 4) as i32,
                (LocMode::Any, 2) => (c % 64) as i32,
                (LocMode::Any, _) => c as i32,
            };
            Loc::Label(name.clone(), off)
        }
        (_, 5) | (LocMode::Code, _) => {
            let off = match (mode, (a >> 3) % 4) {
                (_, 0) => None,
                (LocMode::Code, _) => Some((c % 5) as i32),
                (LocMode::Any, 1) => Some((c % 64) as i32),
                (LocMode::Any, _) => Some(c as i32),
            };
            Loc::PcOff(off)
        }
        _ => {
            // boundary addresses of every kind
            let o = p.orig;
            let cands = [
                0u16, 1, o.wrapping_sub(1), o, o.wrapping_add(1), 0x7FFF, 0x8000, 0xFDFE, 0xFDFF, 0xFE00, 0xFE01, 0xFFFE, 0xFFFF,
                o.wrapping_add(n as u16), o.wrapping_add(n as u16).wrapping_add(1), b,
            ];
            Loc::Abs(cands[idx(b, cands.len())], (a >> 3) as u8 % 6)
        }
    }
}

pub fn value16(b: u16, c: i16) -> u16 {
    match b % 8 {
        0 => 0,
        1 => 1,
        2 => 0x7FFF,
        3 => 0x8000,
        4 => 0xFFFF,
        5 => 0xF025,
        _ => c as u16,
    }
}

/// Stepping / breakpoint commands (C10, C11).
pub fn make_control_cmd(p: &Prog, r: &RawCmd) -> Cmd {
    match r.kind % 16 {
        0 | 1 | 2 => Cmd::Step,
        3 | 4 | 5 => Cmd::StepInto(match r.a % 9 {
            0 => None,
            1 => Some(0),
            2 => Some(1),
            3 => Some(2),
            4 => Some(3),
            5 => Some(7),
            6 => Some(100),
            7 => Some(65535),
            _ => Some(r.b % 40),
        }),
        6 | 7 => Cmd::StepOut,
        8 | 9 | 10 => Cmd::Continue,
        11 | 12 | 13 => Cmd::BreakAdd(make_loc(p, r.a, r.b, r.c, LocMode::Code)),
        _ => Cmd::BreakRemove(make_loc(p, r.a, r.b, r.c, LocMode::Code)),
    }
}

/// Non-mutating inspection commands with arbitrary (valid and invalid) arguments (C09).
pub fn make_inspect_cmd(p: &Prog, r: &RawCmd) -> Cmd {
    match r.kind % 8 {
        0 => Cmd::Print(if r.a % 3 == 0 { PLoc::Reg((r.b % 8) as u8) } else { PLoc::Mem(make_loc(p, r.a, r.b, r.c, LocMode::Any)) }),
        1 => Cmd::Registers,
        2 => Cmd::Assembly(if r.a % 4 == 0 { None } else { Some(make_loc(p, r.a, r.b, r.c, LocMode::Any)) }),
        3 => Cmd::Echo(["hello", "a b  c", "x3000", "step", "quit now", "ünï"][idx(r.b, 6)].to_string()),
        4 => Cmd::Help,
        5 => Cmd::BreakList,
        6 => Cmd::Print(PLoc::Mem(Loc::PcOff(None))),
        _ => Cmd::Registers,
    }
}

// ---------------------------------------------------------------------------------------------

pub struct ModelRun<'a> {
    pub dbg: Dbg<'a>,
    /// state after each command that was applied: (regs, pc, cc)
    pub states: Vec<RegDump>,
    pub effects: Vec<Effect>,
    /// (PC, word at PC) before each kept command
    pub pre: Vec<(u16, u16)>,
    /// breakpoint list after each kept command
    pub bps_after: Vec<Vec<u16>>,
    /// number of commands of the script that are kept (the history is cut at an ambiguous one)
    pub kept: usize,
    pub ambiguous: Option<&'static str>,
    /// how the session ends: true = `exit` / false = `quit` or end of input
    pub ends_with_exit: bool,
    /// when the last kept command is a `step` over a call on which the two readings disagree:
    /// the model under the other reading (`dbg`/`states` follow "first arrival"); either is accepted
    pub alt: Option<(Dbg<'a>, RegDump, Effect)>,
}

impl<'a> ModelRun<'a> {
    /// Switch to the alternative reading of the last command. Returns false if there is none.
    pub fn use_alternative(&mut self) -> bool {
        match self.alt.take() {
            Some((dbg, state, eff)) => {
                self.dbg = dbg;
                if let Some(last) = self.states.last_mut() {
                    *last = state;
                }
                if let Some(last) = self.effects.last_mut() {
                    *last = eff;
                }
                true
            }
            None => false,
        }
    }
}

/// Run the model over `cmds`. The history is cut before the first command whose outcome the
/// reference cannot determine.
pub fn run_model<'a>(p: &Prog, cmds: &[Cmd], input: &'a [u8], budget: u64) -> ModelRun<'a> {
    let vm = Vm::load(p.orig, &p.img.words, p.built.stack);
    let mut dbg = Dbg::new(vm, p.breaks.iter().copied(), p.symbols.clone(), input, budget);
    let mut states = Vec::new();
    let mut effects = Vec::new();
    let mut pre = Vec::new();
    let mut bps_after = Vec::new();
    let mut kept = 0;
    let mut ambiguous = None;
    let mut alt = None;
    let mut ends_with_exit = false;
    for cmd in cmds {
        // evaluate on a copy so that an ambiguous command leaves the model untouched
        let save = (dbg.vm.clone(), dbg.bps.clone(), dbg.io.pos, dbg.io.out.len(), dbg.executed);
        let before = (dbg.vm.pc, dbg.vm.mem[dbg.vm.pc as usize]);
        let eff = dbg.apply(cmd);
        if let Effect::Ambiguous("step over: readings disagree") = &eff {
            // Keep the command as the last one of the history, with both readings' outcomes.
            let restore = |d: &mut Dbg<'a>| {
                d.vm = save.0.clone();
                d.bps = save.1.clone();
                d.io.pos = save.2;
                d.io.out.truncate(save.3);
                d.executed = save.4;
            };
            restore(&mut dbg);
            let mut a = dbg.clone();
            a.step_reading = crate::refdbg::StepReading::FirstArrival;
            let ea = a.apply(cmd);
            let mut b = dbg.clone();
            b.step_reading = crate::refdbg::StepReading::CallReturned;
            let eb = b.apply(cmd);
            if matches!(ea, Effect::Ran { .. }) && matches!(eb, Effect::Ran { .. }) {
                ambiguous = Some("step over: readings disagree");
                kept += 1;
                pre.push(before);
                bps_after.push(a.bps.iter().copied().collect());
                states.push(RegDump { r: a.vm.r, pc: a.vm.pc, cc: a.vm.cc });
                effects.push(ea);
                let sb = RegDump { r: b.vm.r, pc: b.vm.pc, cc: b.vm.cc };
                a.step_reading = crate::refdbg::StepReading::Strict;
                b.step_reading = crate::refdbg::StepReading::Strict;
                alt = Some((b, sb, eb));
                dbg = a;
                break;
            }
            // one of the readings runs into unspecified territory: cut before the command
            ambiguous = Some("step over: readings disagree");
            break;
        }
        match &eff {
            Effect::Ambiguous(why) => {
                ambiguous = Some(*why);
                dbg.vm = save.0;
                dbg.bps = save.1;
                dbg.io.pos = save.2;
                dbg.io.out.truncate(save.3);
                dbg.executed = save.4;
                break;
            }
            Effect::Ends => {
                ends_with_exit = matches!(cmd, Cmd::Exit);
                kept += 1;
                effects.push(eff);
                pre.push(before);
                break;
            }
            _ => {}
        }
        kept += 1;
        pre.push(before);
        bps_after.push(dbg.bps.iter().copied().collect());
        states.push(RegDump { r: dbg.vm.r, pc: dbg.vm.pc, cc: dbg.vm.cc });
        effects.push(eff);
    }
    ModelRun { dbg, states, effects, pre, bps_after, kept, ambiguous, ends_with_exit, alt }
}

/// Script text for the first `kept` commands, each followed by `registers` when `observe` is set.
pub fn script_text(cmds: &[Cmd], aliases: &[u8], kept: usize, observe: bool, terminator: Option<&str>) -> String {
    let mut lines: Vec<String> = Vec::new();
    for (i, c) in cmds.iter().take(kept).enumerate() {
        if matches!(c, Cmd::Quit | Cmd::Exit) {
            break;
        }
        lines.push(c.text(aliases.get(i).copied().unwrap_or(0)));
        if observe {
            lines.push("registers".into());
        }
    }
    if let Some(t) = terminator {
        lines.push(t.to_string());
    }
    // alternate the two separators
    let mut out = String::new();
    for (i, l) in lines.iter().enumerate() {
        out.push_str(l);
        if i + 1 < lines.len() {
            out.push_str(if i % 3 == 2 { ";" } else { "\n" });
        }
    }
    out
}

/// The script through `--command` only (for checks that account for every byte of standard input).
pub fn run_lace_arg(p: &Prog, script: &str, input: &[u8], fuel: u64) -> Session {
    run_lace_mode(p, script, input, fuel, true)
}

/// As `run_lace_arg`, in minimal or in normal (non-minimal) output mode. Checks whose oracle reads
/// the machine through hook H1 rather than through the transcript use both: the normal mode runs
/// code (source-context views, tables, notes) that the minimal mode skips.
pub fn run_lace_mode(p: &Prog, script: &str, input: &[u8], fuel: u64, minimal: bool) -> Session {
    lacebox::run_session(
        Load::Source { text: p.text.clone(), debugger: Some(Some(script.to_string())) },
        RunSpec { stack: p.built.stack, minimal, fuel, input: input.to_vec() },
    )
}

pub fn run_lace(p: &Prog, script: &str, input: &[u8], fuel: u64) -> Session {
    // a third of the sessions that give the program no input receive their script on standard
    // input (read line by line into the reader's buffer) instead of through `--command` (slices of
    // one string): the two transports mean the same (C14), so every debugger property is exercised
    // over both
    // (only for programs without an input trap: program and debugger share standard input. The
    // callers have followed the session in the reference model first and dropped it if an input
    // trap ran - also one that the script or the program wrote into memory; this scan of the
    // image, which ignores the unused bits 11:8 of a TRAP, is a second line of defence)
    let reads_input = p.img.words.iter().any(|w| matches!(*w & 0xF0FF, 0xF020 | 0xF023));
    if input.is_empty() && !reads_input && crate::engine::hash_of(&(script, "transport")) % 3 == 0 && !script.contains('\0') {
        let mut stdin = script.as_bytes().to_vec();
        stdin.push(b'\n');
        return lacebox::run_session(
            Load::Source { text: p.text.clone(), debugger: Some(None) },
            RunSpec { stack: p.built.stack, minimal: true, fuel, input: stdin },
        );
    }
    lacebox::run_session(
        Load::Source { text: p.text.clone(), debugger: Some(Some(script.to_string())) },
        RunSpec { stack: p.built.stack, minimal: true, fuel, input: input.to_vec() },
    )
}

/// The same session once more in the normal (non-minimal) output mode, for one case in six of the
/// checks whose oracle reads the minimal transcript: the mode changes what is printed - tables,
/// colours, errors rendered in full - never what happens. Compared: how the session ends, the
/// number of executed instructions and the final machine (through hooks, not the transcript).
pub fn mode_twin(obs: &mut Obs, id: &str, p: &Prog, script: &str, input: &[u8], fuel: u64, minimal: &Outcome, shown: &str) {
    if obs.key % 6 != 0 {
        return;
    }
    mode_twin_always(obs, id, p, script, input, fuel, minimal, shown)
}

/// `mode_twin` for every case (directed cases).
pub fn mode_twin_always(obs: &mut Obs, id: &str, p: &Prog, script: &str, input: &[u8], fuel: u64, minimal: &Outcome, shown: &str) {
    if obs.fail.is_some() || obs.excluded.is_some() {
        return;
    }
    obs.label("repeated-in-normal-output-mode");
    let s = run_lace_mode(p, script, input, fuel, false);
    let Some(out) = &s.outcome else { return };
    if let Stop::Panic(msg, loc) = &out.stop {
        if msg.contains("RTI") {
            return;
        }
        if loc == "<spin>" {
            obs.set_fail(format!("{id}:session-spins-without-progress"), format!("in the normal output mode: {msg}\n{shown}"));
        } else {
            obs.set_fail(format!("{id}:{}", crate::props::c01::panic_sig(msg, loc)), format!("in the normal (non-minimal) output mode the session panics: {msg} at {loc}\n{shown}"));
        }
        return;
    }
    if out.stop != minimal.stop || out.execs != minimal.execs || out.fin != minimal.fin {
        obs.set_fail(
            format!("{id}:output-mode-changes-behaviour"),
            format!("the same session in the normal output mode: ends with {:?} after {} instructions; in minimal mode {:?} after {}; final machines {}\n{shown}", out.stop, out.execs, minimal.stop, minimal.execs, if out.fin == minimal.fin { "equal" } else { "differ" }),
        );
    }
}

pub fn outcome_of<'s>(obs: &mut Obs, id: &str, s: &'s Session, shown: &str) -> Option<&'s Outcome> {
    if let Some(asm) = &s.asm {
        if !asm.is_ok() {
            obs.set_fail(format!("{id}:valid-program-rejected"), format!("lace does not assemble the generated program: {asm:?}\n{shown}"));
            return None;
        }
    }
    let Some(out) = &s.outcome else {
        obs.set_fail(format!("{id}:load-failed"), format!("the program could not be loaded\n{shown}"));
        return None;
    };
    if let Stop::Panic(msg, _) = &out.stop {
        if msg.contains("RTI") {
            // the documented todo!() for RTI: outside every claim
            obs.excluded = Some("rti");
            return None;
        }
    }
    if let Stop::Panic(msg, loc) = &out.stop {
        if loc == "<spin>" {
            obs.set_fail(format!("{id}:session-spins-without-progress"), format!("{msg}\n{shown}"));
            return None;
        }
        obs.set_fail(format!("{id}:{}", crate::props::c01::panic_sig(msg, loc)), format!("panic: {msg} at {loc}\n{shown}"));
        return None;
    }
    Some(out)
}

/// Compare the `registers` listings of the transcript with the model's states.
pub fn compare_states(obs: &mut Obs, id: &str, model: &ModelRun, cmds: &[Cmd], out: &Outcome, shown: &str) -> bool {
    let err = String::from_utf8_lossy(&out.stderr).to_string();
    let dumps = parse_reg_dumps(&err);
    for (k, want) in model.states.iter().enumerate() {
        let Some(got) = dumps.get(k) else {
            obs.set_fail(
                format!("{id}:session-ended-early"),
                format!("the session produced {} register listings, expected {} (command #{k}: `{}`; stop {:?})\n{shown}\n--- debugger output ---\n{}", dumps.len(), model.states.len(), cmds[k].text(0), out.stop, clip(&err)),
            );
            return false;
        };
        if got != want {
            let what = if got.pc != want.pc {
                format!("PC is x{:04X}, reference x{:04X}", got.pc, want.pc)
            } else if got.cc != want.cc {
                format!("CC is {:03b}, reference {:03b}", got.cc, want.cc)
            } else {
                let i = (0..8).find(|i| got.r[*i] != want.r[*i]).unwrap();
                format!("R{i} is x{:04X}, reference x{:04X}", got.r[i], want.r[i])
            };
            let cmdname = cmd_class(&cmds[k]);
            obs.set_fail(
                format!("{id}:wrong-state-after:{cmdname}"),
                format!(
                    "after command #{k} `{}` ({:?}): {what}\n{shown}\n--- debugger output ---\n{}",
                    cmds[k].text(0),
                    model.effects[k],
                    clip(&err)
                ),
            );
            return false;
        }
    }
    true
}

pub fn cmd_class(c: &Cmd) -> &'static str {
    match c {
        Cmd::Step => "step",
        Cmd::StepInto(_) => "step-into",
        Cmd::StepOut => "step-out",
        Cmd::Continue => "continue",
        Cmd::BreakAdd(_) => "break-add",
        Cmd::BreakRemove(_) => "break-remove",
        Cmd::BreakList => "break-list",
        Cmd::Print(_) => "print",
        Cmd::Registers => "registers",
        Cmd::Assembly(_) => "assembly",
        Cmd::Echo(_) => "echo",
        Cmd::Help => "help",
        Cmd::Reset => "reset",
        Cmd::Move(..) => "move",
        Cmd::Goto(_) => "goto",
        Cmd::Eval(_) | Cmd::EvalText(_) => "eval",
        Cmd::Quit => "quit",
        Cmd::Exit => "exit",
    }
}

pub fn compare_output(obs: &mut Obs, id: &str, expected: &[Out], out: &Outcome, shown: &str) -> bool {
    let actual = decode_out(&out.stdout);
    if let Err(at) = match_out(expected, &actual) {
        obs.set_fail(
            format!("{id}:wrong-program-output"),
            format!("program output differs at character {at}: got {:?}, reference {:?}\n{shown}", String::from_utf8_lossy(&out.stdout), out_to_string(expected)),
        );
        return false;
    }
    true
}

pub fn clip(s: &str) -> String {
    if s.len() <= 1500 {
        s.to_string()
    } else {
        let mut a = 700;
        while !s.is_char_boundary(a) {
            a += 1;
        }
        let mut b = s.len() - 700;
        while !s.is_char_boundary(b) {
            b += 1;
        }
        format!("{}\n...[{} bytes]...\n{}", &s[..a], s.len(), &s[b..])
    }
}

pub fn show_case(p: &Prog, script: &str, input: &[u8]) -> String {
    format!("--- script ---\n{script}\n--- input {input:?}, stack={} ---\n{}", p.built.stack, p.text)
}

pub fn pause_label(e: &Effect) -> Option<&'static str> {
    match e {
        Effect::Ran { pause: Pause::Breakpoint, .. } => Some("pause-breakpoint"),
        Effect::Ran { pause: Pause::Halt, .. } => Some("pause-halt"),
        Effect::Ran { pause: Pause::OutOfBounds, .. } => Some("pause-out-of-bounds"),
        Effect::Ran { pause: Pause::Done, .. } => Some("pause-command-complete"),
        Effect::Refused(_) => Some("command-refused"),
        _ => None,
    }
}

/// An instruction for `eval` (C15): every register / immediate / base+offset form, label
/// operands, stack instructions, output traps; and refused forms.
pub fn make_eval_stmt(p: &Prog, r: &RawCmd) -> Stmt {
    let reg = |x: u16| (x % 8) as u8;
    let lbl = |sel: u16| -> Operand {
        if p.symbols.is_empty() {
            Operand::Label("nolabel".into())
        } else {
            Operand::Label(p.symbols[idx(sel, p.symbols.len())].0.clone())
        }
    };
    let imm5 = Operand::Lit(Lit::Dec((r.c % 16) as i32));
    let off6 = Operand::Lit(Lit::Dec((r.c % 32) as i32));
    match r.kind % 24 {
        0 => Stmt::new(Op::Add, &[reg(r.a), reg(r.a >> 3)], Operand::Reg(reg(r.a >> 6))),
        1 => Stmt::new(Op::Add, &[reg(r.a), reg(r.a >> 3)], imm5),
        2 => Stmt::new(Op::And, &[reg(r.a), reg(r.a >> 3)], Operand::Reg(reg(r.a >> 6))),
        3 => Stmt::new(Op::And, &[reg(r.a), reg(r.a >> 3)], imm5),
        4 => Stmt::new(Op::Not, &[reg(r.a), reg(r.a >> 3)], Operand::None),
        5 => Stmt::new(Op::Ld, &[reg(r.a)], lbl(r.b)),
        6 => Stmt::new(Op::Ldi, &[reg(r.a)], lbl(r.b)),
        7 => Stmt::new(Op::Lea, &[reg(r.a)], lbl(r.b)),
        8 => Stmt::new(Op::St, &[reg(r.a)], lbl(r.b)),
        9 => Stmt::new(Op::Sti, &[reg(r.a)], lbl(r.b)),
        10 => Stmt::new(Op::Ldr, &[reg(r.a), reg(r.a >> 3)], off6),
        11 => Stmt::new(Op::Str, &[reg(r.a), reg(r.a >> 3)], off6),
        12 => Stmt::new(Op::Jmp, &[reg(r.a)], Operand::None),
        13 => Stmt::new(Op::Jsr, &[], lbl(r.b)),
        14 => Stmt::new(Op::Jsrr, &[reg(r.a)], Operand::None),
        15 => Stmt::simple(Op::Ret),
        16 => Stmt::new(Op::Push, &[reg(r.a)], Operand::None),
        17 => Stmt::new(Op::Pop, &[reg(r.a)], Operand::None),
        18 => Stmt::new(Op::Call, &[], lbl(r.b)),
        19 => Stmt::simple(Op::Rets),
        20 => Stmt::simple([Op::Out, Op::Putn, Op::Puts, Op::Reg][idx(r.b, 4)]),
        // refused forms
        21 => Stmt::new(Op::Br(((r.a % 7) + 1) as u8, true), &[], lbl(r.b)),
        22 => Stmt::simple([Op::Halt, Op::Rti][idx(r.b, 2)]),
        _ => Stmt::new(Op::Trap, &[], Operand::Lit(Lit::Hex([0x25u16, 0x00, 0x1F, 0x28, 0xFF, 0x21, 0x26][idx(r.b, 7)], 0))),
    }
}

/// Mutating commands (C12, C13): move to registers and memory anywhere, goto, eval, plus
/// execution and breakpoints.
pub fn make_mutating_cmd(p: &Prog, r: &RawCmd) -> Cmd {
    match r.kind % 16 {
        0 | 1 => Cmd::Move(PLoc::Reg((r.a % 8) as u8), value16(r.b, r.c)),
        2 | 3 | 4 => Cmd::Move(PLoc::Mem(make_loc(p, r.a, r.b, r.c, LocMode::Any)), value16(r.a >> 5, r.c)),
        5 => Cmd::Move(PLoc::Mem(make_loc(p, r.a, r.b, r.c, LocMode::Code)), value16(r.a >> 5, r.c)),
        6 | 7 => Cmd::Goto(make_loc(p, r.a, r.b, r.c, if r.kind & 16 == 0 { LocMode::Code } else { LocMode::Any })),
        8 | 9 => Cmd::Eval(make_eval_stmt(p, r)),
        10 => Cmd::StepInto(Some(1 + r.b % 20)),
        11 => Cmd::Step,
        12 => Cmd::Continue,
        13 => Cmd::BreakAdd(make_loc(p, r.a, r.b, r.c, LocMode::Any)),
        14 => Cmd::BreakRemove(make_loc(p, r.a, r.b, r.c, LocMode::Any)),
        _ => Cmd::Reset,
    }
}

/// A crowd of breakpoints (selector `sel` != 0): 15..18 / 31..34 / 63..66 / 100 / 257 of them on
/// consecutive words - from the origin on, or ending at a word of the program chosen by the
/// selector - in a scattered order of insertion.
pub fn crowd_addrs(p: &Prog, sel: u16) -> Vec<u16> {
    let k = [15usize, 16, 17, 18, 31, 32, 33, 34, 63, 64, 65, 66, 100, 257][sel as usize % 14];
    let n = p.img.words.len().max(1);
    let first: u16 = if (sel / 28) % 2 == 0 {
        p.orig
    } else {
        // the highest breakpoint sits on a word of the program
        let top = p.orig as usize + (sel as usize / 56 * 7 + sel as usize) % n;
        top.saturating_sub(k - 1).max(p.orig as usize) as u16
    };
    let stride = [7usize, 11, 13, 17, 19, 23].into_iter().find(|s| k % s != 0).unwrap_or(1);
    (0..k).map(|j| first.wrapping_add(((j * stride) % k) as u16)).collect()
}

/// What follows the history of a crowd session: up to 40 `continue`s with one or two removals of
/// crowd members (and one re-insertion) at places the selector chooses.
pub fn crowd_tail(addrs: &[u16], sel: u16) -> Vec<Cmd> {
    let m = addrs.len().min(40);
    let mut out = Vec::new();
    let at1 = (sel as usize * 31 + 3) % (m + 1);
    let at2 = (sel as usize * 17 + 11) % (m + 1);
    for j in 0..=m {
        if j == at1 {
            out.push(Cmd::BreakRemove(crate::refdbg::Loc::Abs(addrs[(sel as usize * 5) % addrs.len()], 0)));
        }
        if j == at2 && sel % 3 != 0 {
            let a = addrs[(sel as usize * 13 + 1) % addrs.len()];
            out.push(Cmd::BreakRemove(crate::refdbg::Loc::Abs(a, 0)));
            if sel % 3 == 2 {
                out.push(Cmd::BreakAdd(crate::refdbg::Loc::Abs(a, 0)));
            }
        }
        if j < m {
            out.push(Cmd::Continue);
        }
    }
    out
}
