//! Runner: sharding over worker processes, proptest drivers with fixed seeds, classification
//! counters, shrinking to replay files, known-finding matching, evidence JSON.

use std::collections::{BTreeMap, BTreeSet};
use std::fmt::Debug;
use std::hash::{Hash, Hasher};
use std::path::{Path, PathBuf};
use std::time::Instant;

use proptest::strategy::{Strategy, ValueTree};
use proptest::test_runner::{Config, RngAlgorithm, TestRng, TestRunner};
use serde::{Deserialize, Serialize};
use serde_json::{json, Value};

#[derive(Clone, Copy, PartialEq, Eq, Debug)]
pub enum Tier {
    Quick,
    Thorough,
}
impl Tier {
    pub fn name(self) -> &'static str {
        match self {
            Tier::Quick => "quick",
            Tier::Thorough => "thorough",
        }
    }
    pub fn pick<T>(self, quick: T, thorough: T) -> T {
        match self {
            Tier::Quick => quick,
            Tier::Thorough => thorough,
        }
    }
}

/// Context a worker runs in.
#[derive(Clone, Debug)]
pub struct Ctx {
    pub id: String,
    pub tier: Tier,
    pub seed: u64,
    pub worker: usize,
    pub nworkers: usize,
    /// Build profile of this binary: "A" (debug assertions + overflow checks) or "B" (release).
    pub profile: String,
    /// Known-finding signatures (exact) that do not count as violations.
    pub known: BTreeSet<String>,
    /// Journal file: when set, every case is written there before it is executed.
    pub journal: Option<PathBuf>,
    /// Part file of this worker: rewritten whenever a failure is recorded, so that what was found
    /// survives a worker that later hangs and is killed by the watchdog.
    pub part: Option<PathBuf>,
}

impl Ctx {
    /// Share of a deterministic enumeration that belongs to this worker.
    pub fn mine(&self, index: u64) -> bool {
        (index % self.nworkers as u64) == self.worker as u64
    }
    /// Number of random cases for this worker out of `total`.
    pub fn share(&self, total: u64) -> u64 {
        let base = total / self.nworkers as u64;
        let extra = if (self.worker as u64) < total % self.nworkers as u64 { 1 } else { 0 };
        base + extra
    }
    pub fn stream_seed(&self, stream: &str) -> [u8; 32] {
        let mut out = [0u8; 32];
        for (i, chunk) in out.chunks_mut(8).enumerate() {
            let mut h = Fnv::new();
            self.seed.hash(&mut h);
            self.id.hash(&mut h);
            stream.hash(&mut h);
            self.worker.hash(&mut h);
            self.profile.hash(&mut h);
            (i as u64).hash(&mut h);
            chunk.copy_from_slice(&mix(h.finish()).to_le_bytes());
        }
        out
    }
}

/// FNV-1a, deterministic across runs and platforms (std's SipHash keys are fixed for
/// `DefaultHasher::new()`, but FNV keeps this explicit).
pub struct Fnv(u64);
impl Fnv {
    pub fn new() -> Self {
        Fnv(0xcbf29ce484222325)
    }
}
impl Hasher for Fnv {
    fn finish(&self) -> u64 {
        self.0
    }
    fn write(&mut self, bytes: &[u8]) {
        for b in bytes {
            self.0 ^= *b as u64;
            self.0 = self.0.wrapping_mul(0x100000001b3);
        }
    }
}
pub fn mix(mut x: u64) -> u64 {
    x ^= x >> 33;
    x = x.wrapping_mul(0xff51afd7ed558ccd);
    x ^= x >> 33;
    x = x.wrapping_mul(0xc4ceb9fe1a85ec53);
    x ^= x >> 33;
    x
}
pub fn hash_of<T: Hash + ?Sized>(v: &T) -> u64 {
    let mut h = Fnv::new();
    v.hash(&mut h);
    mix(h.finish())
}

#[derive(Clone, Debug, Serialize, Deserialize)]
pub struct Failure {
    pub signature: String,
    pub message: String,
    pub case: Value,
    #[serde(default)]
    pub profile: String,
}

/// What a single judged case reports back.
#[derive(Default, Debug, Clone)]
pub struct Obs {
    pub nontrivial: bool,
    /// Hash identifying the case for the distinct count (only used when `nontrivial`).
    pub key: u64,
    pub labels: Vec<&'static str>,
    /// `Some((signature, message))` when the oracle is contradicted.
    pub fail: Option<(String, String)>,
    /// The case was not asserted because two readings of the statement disagree on it.
    pub ambiguous: bool,
    /// The case was not asserted for another stated reason (label).
    pub excluded: Option<&'static str>,
    /// Human-readable rendering of the case for evidence samples (source text, script, ...).
    pub show: Option<String>,
}
impl Obs {
    pub fn fail(sig: impl Into<String>, msg: impl Into<String>) -> Self {
        Obs { fail: Some((sig.into(), msg.into())), ..Default::default() }
    }
    pub fn set_fail(&mut self, sig: impl Into<String>, msg: impl Into<String>) {
        if self.fail.is_none() {
            self.fail = Some((sig.into(), msg.into()));
        }
    }
    pub fn label(&mut self, l: &'static str) {
        if !self.labels.contains(&l) {
            self.labels.push(l);
        }
    }
}

#[derive(Default, Debug, Serialize, Deserialize)]
pub struct Report {
    pub evaluations: u64,
    pub nontrivial: BTreeSet<u64>,
    pub classes: BTreeMap<String, u64>,
    pub samples: Vec<Value>,
    pub failures: Vec<Failure>,
    pub known_hits: BTreeMap<String, u64>,
    pub excluded_ambiguous: u64,
    pub excluded: BTreeMap<String, u64>,
    pub exhaustive: Vec<String>,
    pub inconclusive: Vec<String>,
    pub notes: Vec<String>,
}

const MAX_SAMPLES_PER_WORKER: usize = 6;
const MAX_FAILURES_PER_WORKER: usize = 12;

impl Report {
    pub fn class(&mut self, name: &str) {
        *self.classes.entry(name.to_string()).or_insert(0) += 1;
    }
    pub fn class_n(&mut self, name: &str, n: u64) {
        *self.classes.entry(name.to_string()).or_insert(0) += n;
    }

    /// Record one judged case. Returns `true` if it is an (unknown) failure.
    pub fn record(&mut self, ctx: &Ctx, obs: &Obs, case: &dyn Fn() -> Value) -> bool {
        self.evaluations += 1;
        for l in &obs.labels {
            self.class(l);
        }
        if obs.ambiguous {
            self.excluded_ambiguous += 1;
        }
        if let Some(e) = obs.excluded {
            *self.excluded.entry(e.to_string()).or_insert(0) += 1;
        }
        if obs.nontrivial {
            self.class("nontrivial");
            self.nontrivial.insert(obs.key);
            // deterministic sample: first few non-trivial cases, then sparse ones chosen by key
            if self.samples.len() < MAX_SAMPLES_PER_WORKER / 2
                || (self.samples.len() < MAX_SAMPLES_PER_WORKER && obs.key % 997 == 0)
            {
                self.samples.push(sample_of(obs, case));
            }
        } else if self.samples.is_empty() && self.evaluations > 50 {
            self.samples.push(sample_of(obs, case));
        }
        if let Some((sig, msg)) = &obs.fail {
            if ctx.known.contains(sig) {
                *self.known_hits.entry(sig.clone()).or_insert(0) += 1;
                return false;
            }
            let same = self.failures.iter().filter(|f| &f.signature == sig).count();
            if same < 2 && self.failures.len() < MAX_FAILURES_PER_WORKER {
                self.failures.push(Failure {
                    signature: sig.clone(),
                    message: msg.clone(),
                    case: case(),
                    profile: ctx.profile.clone(),
                });
                if let Some(part) = &ctx.part {
                    let _ = std::fs::write(part, serde_json::to_vec(&*self).unwrap_or_default());
                }
            }
            if crate::lacebox::spin_seen() && ctx.part.is_some() {
                // a session thread of this worker spins for good (it cannot be killed and its
                // redirected streams are lost): the finding is in the part file, the worker ends
                crate::lacebox::log("harness: worker ends after recording a spinning session");
                std::process::exit(86);
            }
            return true;
        }
        false
    }

    pub fn merge(&mut self, other: Report) {
        self.evaluations += other.evaluations;
        self.nontrivial.extend(other.nontrivial);
        for (k, v) in other.classes {
            *self.classes.entry(k).or_insert(0) += v;
        }
        for s in other.samples {
            if self.samples.len() < 12 {
                self.samples.push(s);
            }
        }
        self.failures.extend(other.failures);
        for (k, v) in other.known_hits {
            *self.known_hits.entry(k).or_insert(0) += v;
        }
        self.excluded_ambiguous += other.excluded_ambiguous;
        for (k, v) in other.excluded {
            *self.excluded.entry(k).or_insert(0) += v;
        }
        for e in other.exhaustive {
            if !self.exhaustive.contains(&e) {
                self.exhaustive.push(e);
            }
        }
        self.inconclusive.extend(other.inconclusive);
        for n in other.notes {
            if !self.notes.contains(&n) {
                self.notes.push(n);
            }
        }
    }
}

fn sample_of(obs: &Obs, case: &dyn Fn() -> Value) -> Value {
    // keep evidence files readable: a very large structured case is represented by its rendering
    let mut c = case();
    let size = c.to_string().len();
    if size > 6000 {
        c = json!({ "omitted": format!("structured case is {size} bytes; see `shown`") });
    }
    let clip = |t: &String| -> String {
        if t.len() > 4000 {
            let mut end = 4000;
            while !t.is_char_boundary(end) {
                end -= 1;
            }
            format!("{} ...[{} bytes in total]", &t[..end], t.len())
        } else {
            t.clone()
        }
    };
    match &obs.show {
        Some(text) => json!({ "shown": clip(text), "nontrivial": obs.nontrivial, "case": c }),
        None => json!({ "nontrivial": obs.nontrivial, "case": c }),
    }
}

fn journal(ctx: &Ctx, case: &dyn Fn() -> Value) {
    if let Some(path) = &ctx.journal {
        let _ = std::fs::write(path, serde_json::to_vec(&case()).unwrap_or_default());
    }
}

/// Judge one deterministic (enumerated) case.
pub fn judge_one<C: Serialize>(
    ctx: &Ctx,
    rep: &mut Report,
    case: &C,
    judge: &mut dyn FnMut(&C) -> Obs,
) -> bool {
    let as_value = || serde_json::to_value(case).unwrap_or(Value::Null);
    journal(ctx, &as_value);
    let obs = judge(case);
    rep.record(ctx, &obs, &as_value)
}

/// A proptest runner with a fixed seed that judges generated cases one at a time, shrinks
/// failures (standard simplify/complicate walk; counters untouched while shrinking) and keeps
/// going after a failure so that one shallow defect does not hide what lies behind it, up to a
/// few distinct signatures.
pub struct Driver {
    runner: TestRunner,
    failed_sigs: BTreeSet<String>,
    pub stopped: bool,
    /// cap on judge calls spent shrinking one failure (lower it for expensive judges)
    pub max_shrink: u32,
    stream: String,
}

impl Driver {
    pub fn new(ctx: &Ctx, stream: &str) -> Self {
        let config = Config {
            cases: 1,
            failure_persistence: None,
            max_shrink_iters: 4096,
            max_global_rejects: 65536,
            ..Config::default()
        };
        let rng = TestRng::from_seed(RngAlgorithm::ChaCha, &ctx.stream_seed(stream));
        Driver { runner: TestRunner::new_with_rng(config, rng), failed_sigs: BTreeSet::new(), stopped: false, max_shrink: 1000, stream: stream.to_string() }
    }

    /// Generate one value of `strat` and judge it.
    pub fn one<T, S>(&mut self, ctx: &Ctx, rep: &mut Report, strat: &S, judge: &mut dyn FnMut(&T) -> Obs)
    where
        T: Debug + Serialize,
        S: Strategy<Value = T>,
    {
        if self.stopped {
            return;
        }
        let mut tree = match strat.new_tree(&mut self.runner) {
            Ok(t) => t,
            Err(reason) => {
                rep.inconclusive.push(format!("generator rejected: {reason}"));
                self.stopped = true;
                return;
            }
        };
        let value = tree.current();
        let as_value = || serde_json::to_value(&value).unwrap_or(Value::Null);
        journal(ctx, &as_value);
        let obs = judge(&value);
        let is_fail = obs.fail.is_some() && !ctx.known.contains(&obs.fail.as_ref().unwrap().0);
        if !is_fail {
            rep.record(ctx, &obs, &as_value);
            return;
        }
        let mut best = value;
        let mut best_obs = obs;
        let mut iters = 0;
        'shrink: loop {
            if crate::lacebox::spin_seen() {
                break 'shrink;
            }
            if !tree.simplify() {
                break;
            }
            loop {
                iters += 1;
                if iters > self.max_shrink {
                    break 'shrink;
                }
                let cand = tree.current();
                let jv = || serde_json::to_value(&cand).unwrap_or(Value::Null);
                journal(ctx, &jv);
                let o = judge(&cand);
                let f = o.fail.is_some() && !ctx.known.contains(&o.fail.as_ref().unwrap().0);
                if f {
                    best = cand;
                    best_obs = o;
                    break;
                }
                if !tree.complicate() {
                    break 'shrink;
                }
            }
        }
        let sig = best_obs.fail.as_ref().unwrap().0.clone();
        let bv = || serde_json::to_value(&best).unwrap_or(Value::Null);
        if self.failed_sigs.insert(sig) {
            rep.record(ctx, &best_obs, &bv);
        } else {
            rep.evaluations += 1;
        }
        if self.failed_sigs.len() >= 3 {
            rep.notes.push(format!("stream {}: stopped after 3 distinct failure signatures", self.stream));
            self.stopped = true;
        }
    }
}

/// Drive `cases` generated values of `strat` through `judge`.
pub fn drive<T, S>(
    ctx: &Ctx,
    rep: &mut Report,
    stream: &str,
    strat: S,
    cases: u64,
    judge: &mut dyn FnMut(&T) -> Obs,
) where
    T: Debug + Serialize,
    S: Strategy<Value = T>,
{
    let mut d = Driver::new(ctx, stream);
    if let Ok(v) = std::env::var("VERIF_MAX_SHRINK") {
        d.max_shrink = v.parse().unwrap_or(1000);
    }
    for _ in 0..cases {
        if d.stopped {
            break;
        }
        d.one(ctx, rep, &strat, judge);
    }
}

// ---------------------------------------------------------------------------------------------
// Property registry

pub trait Prop: Sync {
    fn id(&self) -> &'static str;
    fn level(&self) -> &'static str {
        "exploration"
    }
    fn rule(&self) -> &'static str;
    fn assumptions(&self) -> Vec<String> {
        vec![]
    }
    /// Which profiles the thorough tier runs (quick runs "A" only).
    fn profiles(&self, tier: Tier) -> Vec<&'static str> {
        match tier {
            Tier::Quick => vec!["A"],
            Tier::Thorough => vec!["A", "B"],
        }
    }
    /// Needs the plain `lace` binary (process-level checks).
    fn needs_cli(&self) -> bool {
        false
    }
    fn run_worker(&self, ctx: &Ctx, rep: &mut Report);
    /// Strictly judge one saved case (a `case` value as stored in a replay file).
    fn replay(&self, ctx: &Ctx, case: &Value) -> Obs;
    /// The property's generators as one strategy over saved-case values, for the coverage-guided
    /// stage (`fuzzmode`): every value it yields must be judgeable by `replay`.
    fn fuzz_strategy(&self) -> Option<proptest::strategy::BoxedStrategy<Value>> {
        None
    }
}

// ---------------------------------------------------------------------------------------------
// Known findings file

#[derive(Debug, Deserialize, Default)]
pub struct KnownFile {
    #[serde(default)]
    pub known: Vec<KnownEntry>,
    #[serde(default)]
    pub fixed: Vec<Value>,
}
#[derive(Debug, Deserialize, Clone)]
pub struct KnownEntry {
    pub property: String,
    pub signature: String,
    pub what: String,
}

pub fn load_known(verif_dir: &Path) -> KnownFile {
    let p = verif_dir.join("known_findings.json");
    match std::fs::read(&p) {
        Ok(bytes) => serde_json::from_slice(&bytes).unwrap_or_else(|e| {
            eprintln!("warning: cannot parse {}: {e}", p.display());
            KnownFile::default()
        }),
        Err(_) => KnownFile::default(),
    }
}

// ---------------------------------------------------------------------------------------------
// Evidence

pub struct EvidenceInput<'a> {
    pub prop: &'a dyn Prop,
    pub tier: Tier,
    pub seed: u64,
    pub report: &'a Report,
    pub wall: f64,
    pub profiles: Vec<String>,
    pub violations: usize,
    pub replayed: usize,
    pub known_printed: Vec<String>,
}

pub fn write_evidence(path: &Path, e: EvidenceInput) {
    let rep = e.report;
    let mut samples = rep.samples.clone();
    if samples.is_empty() {
        samples.push(json!("(no case was sampled)"));
    }
    let coverage = json!({
        "evaluations": rep.evaluations,
        "distinct_nontrivial": rep.nontrivial.len(),
        "rule": e.prop.rule(),
        "samples": samples,
        "classes": rep.classes,
        "excluded_known": rep.known_hits,
        "excluded_ambiguous": rep.excluded_ambiguous,
        "excluded_other": rep.excluded,
        "exhaustive": !rep.exhaustive.is_empty(),
        "exhaustive_subspaces": rep.exhaustive,
        "profiles": e.profiles,
        "replayed_regressions": e.replayed,
        "known_findings_reported": e.known_printed,
        "inconclusive": rep.inconclusive,
        "notes": rep.notes,
    });
    let doc = json!({
        "property_id": e.prop.id(),
        "tier": e.tier.name(),
        "seed": e.seed,
        "level": e.prop.level(),
        "coverage": coverage,
        "assumptions": e.prop.assumptions(),
        "wall_s": (e.wall * 1000.0).round() / 1000.0,
        "violations": e.violations,
    });
    if let Some(parent) = path.parent() {
        let _ = std::fs::create_dir_all(parent);
    }
    std::fs::write(path, serde_json::to_vec_pretty(&doc).unwrap()).expect("write evidence");
}

pub fn now() -> Instant {
    Instant::now()
}
