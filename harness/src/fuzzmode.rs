//! Coverage-guided mode: the same generators and the same judges, driven by libFuzzer.
//!
//! A fuzz input is not decoded by hand: it is the random tape of a proptest `TestRng` in
//! `PassThrough` mode (the algorithm proptest provides for external fuzzers), fed to the
//! property's own strategies (`Prop::fuzz_strategy`). libFuzzer's mutations of the tape are
//! therefore mutations of the generated program / history / machine state, and its coverage
//! feedback (lace, the reference models and the generators are all instrumented) steers the
//! search towards inputs that reach new code in lace — the region random generation samples
//! least. Every generated case is judged by `Prop::replay`, i.e. by exactly the strict oracle a
//! saved replay file is judged with; a failure is shrunk with the strategy's own value tree and
//! written as an ordinary replay file, so nothing about a violation found here depends on
//! libFuzzer to reproduce.
//!
//! A confirmed failure does not stop the campaign: its signature is excluded for the rest of the
//! process (counted), so that one shallow defect does not hide what lies behind it.

use std::collections::BTreeSet;
use std::io::Write;
use std::path::PathBuf;

use proptest::strategy::{BoxedStrategy, Strategy, ValueTree};
use proptest::test_runner::{Config, RngAlgorithm, TestRng, TestRunner};
use serde::Serialize;
use serde_json::{json, Value};

use crate::engine::*;
use crate::lacebox;
use crate::props;

/// Turn a typed strategy into the strategy of its saved-case form.
pub fn jv<S>(s: S) -> BoxedStrategy<Value>
where
    S: Strategy + 'static,
    S::Value: Serialize,
{
    s.prop_map(|v| serde_json::to_value(&v).unwrap_or(Value::Null)).boxed()
}

struct State {
    prop: &'static dyn Prop,
    ctx: Ctx,
    strat: BoxedStrategy<Value>,
    out: Option<PathBuf>,
    seen: BTreeSet<String>,
    stats: Stats,
}
#[derive(Default, Serialize)]
struct Stats {
    inputs: u64,
    judged: u64,
    nontrivial: u64,
    excluded: u64,
    generator_rejected: u64,
    known: u64,
    failures_recorded: u64,
    failures_repeated: u64,
}

thread_local! {
    // libFuzzer calls the target on one thread
    static STATE: std::cell::RefCell<Option<State>> = const { std::cell::RefCell::new(None) };
}

fn config() -> Config {
    Config { cases: 1, failure_persistence: None, max_shrink_iters: 4096, max_local_rejects: 256, max_global_rejects: 1024, ..Config::default() }
}

/// The tape a fuzz input denotes: the input bytes followed by a fixed pseudo-random tail. Without
/// the tail an exhausted PassThrough RNG returns zeros forever, on which the rejection loops of
/// uniform sampling never terminate; a fixed (input-independent) tail keeps mutations local.
fn tape(data: &[u8]) -> Vec<u8> {
    static TAIL: std::sync::OnceLock<Vec<u8>> = std::sync::OnceLock::new();
    let tail = TAIL.get_or_init(|| {
        let mut x = 0x9E3779B97F4A7C15u64;
        let mut v = Vec::with_capacity(1 << 16);
        while v.len() < (1 << 16) {
            x = x.wrapping_add(0x9E3779B97F4A7C15);
            v.extend_from_slice(&mix(x).to_le_bytes());
        }
        v
    });
    let mut t = Vec::with_capacity(data.len() + tail.len());
    t.extend_from_slice(data);
    t.extend_from_slice(tail);
    t
}

/// Generate the case a fuzz input denotes (None: the generator gave up on this tape).
pub fn case_of(strat: &BoxedStrategy<Value>, data: &[u8]) -> Option<Box<dyn ValueTree<Value = Value>>> {
    let rng = TestRng::from_seed(RngAlgorithm::PassThrough, &tape(data));
    let mut runner = TestRunner::new_with_rng(config(), rng);
    strat.new_tree(&mut runner).ok()
}

/// `lace-verif fuzzseeds <ID> <dir> <n> <seed>`: a starting corpus — the tapes (recorded RNG
/// output) of `n` cases drawn from the property's generators with the ordinary seeded RNG.
pub fn write_seeds(id: &str, dir: &std::path::Path, n: usize, seed: u64) -> usize {
    let prop = find(id);
    let Some(strat) = prop.fuzz_strategy() else { return 0 };
    let _ = std::fs::create_dir_all(dir);
    let mut written = 0;
    for i in 0..n {
        let mut s = [0u8; 32];
        for (k, chunk) in s.chunks_mut(8).enumerate() {
            chunk.copy_from_slice(&mix(hash_of(&(seed, id, i as u64, k as u64))).to_le_bytes());
        }
        let rng = TestRng::from_seed(RngAlgorithm::Recorder, &s);
        let mut runner = TestRunner::new_with_rng(config(), rng);
        if strat.new_tree(&mut runner).is_ok() {
            let bytes = runner.bytes_used();
            if bytes.len() <= 1 << 15 && std::fs::write(dir.join(format!("seed-{i:04}")), &bytes).is_ok() {
                written += 1;
            }
        }
    }
    written
}

/// `lace-verif fuzzprobe <ID> <n>`: how much tape the property's generators use (a strategy that
/// forks the RNG shows up as half the tape or more gone).
pub fn probe(id: &str, n: usize) -> (usize, usize) {
    use rand::RngCore;
    let prop = find(id);
    let strat = prop.fuzz_strategy().expect("no fuzz strategy");
    let mut worst = 0;
    let mut sum = 0;
    for i in 0..n {
        let data: Vec<u8> = (0..4096u64).map(|k| (mix(k * 131 + i as u64 * 7919) >> 11) as u8).collect();
        let t = tape(&data);
        let rng = TestRng::from_seed(RngAlgorithm::PassThrough, &t);
        let mut runner = TestRunner::new_with_rng(config(), rng);
        let _ = strat.new_tree(&mut runner);
        let mut rest = vec![0u8; t.len() + 8];
        runner.rng().fill_bytes(&mut rest);
        // the unread part of the tape is a suffix of it: find where it starts
        let left = (0..=t.len()).find(|k| t[*k..] == rest[..t.len() - *k]).map(|k| t.len() - k).unwrap_or(0);
        let used = t.len() - left;
        worst = worst.max(used);
        sum += used;
    }
    (worst, sum / n.max(1))
}

fn ctx_for(prop: &'static dyn Prop) -> Ctx {
    let dir = PathBuf::from(std::env::var("VERIF_DIR").unwrap_or_else(|_| "/verif".into()));
    let known = load_known(&dir).known.into_iter().filter(|k| k.property == prop.id()).map(|k| k.signature).collect();
    Ctx {
        id: prop.id().to_string(),
        tier: Tier::Thorough,
        seed: 0,
        worker: 0,
        nworkers: 1,
        profile: std::env::var("VERIF_PROFILE").unwrap_or_else(|_| "F".into()),
        known,
        journal: None,
        part: None,
    }
}

fn find(id: &str) -> &'static dyn Prop {
    props::all().into_iter().find(|p| p.id().eq_ignore_ascii_case(id)).expect("unknown property id")
}

/// libFuzzer entry: judge the case the tape denotes.
pub fn entry(id: &str, data: &[u8]) {
    STATE.with(|cell| entry_with(&mut cell.borrow_mut(), id, data))
}

fn entry_with(guard: &mut Option<State>, id: &str, data: &[u8]) {
    if guard.is_none() {
        std::env::remove_var("CLICOLOR_FORCE");
        std::env::set_var("NO_COLOR", "1");
        let prop = find(id);
        let strat = prop.fuzz_strategy().expect("property has no fuzz strategy");
        lacebox::install_redirect();
        if let Ok(dir) = std::env::var("VERIF_FUZZ_OUT") {
            let _ = std::fs::create_dir_all(dir);
        }
        *guard = Some(State {
            prop,
            ctx: ctx_for(prop),
            strat,
            out: std::env::var("VERIF_FUZZ_OUT").ok().map(PathBuf::from),
            seen: BTreeSet::new(),
            stats: Stats::default(),
        });
    }
    let st = guard.as_mut().unwrap();
    st.stats.inputs += 1;
    if data.len() < 8 {
        return;
    }
    let Some(mut tree) = case_of(&st.strat, data) else {
        st.stats.generator_rejected += 1;
        return;
    };
    let value = tree.current();
    let obs = st.prop.replay(&st.ctx, &value);
    st.stats.judged += 1;
    if obs.nontrivial {
        st.stats.nontrivial += 1;
    }
    if obs.excluded.is_some() || obs.ambiguous {
        st.stats.excluded += 1;
    }
    let failing = |o: &Obs, ctx: &Ctx| o.fail.as_ref().map(|(s, _)| !ctx.known.contains(s)).unwrap_or(false);
    if let Some((s, _)) = &obs.fail {
        if st.ctx.known.contains(s) {
            st.stats.known += 1;
        }
    }
    if failing(&obs, &st.ctx) {
        let sig0 = obs.fail.as_ref().unwrap().0.clone();
        if st.seen.contains(&sig0) {
            st.stats.failures_repeated += 1;
        } else {
            // shrink with the strategy's own value tree
            let mut best = value;
            let mut best_obs = obs;
            let mut iters = 0;
            'shrink: while tree.simplify() {
                loop {
                    iters += 1;
                    if iters > 300 {
                        break 'shrink;
                    }
                    let cand = tree.current();
                    let o = st.prop.replay(&st.ctx, &cand);
                    if failing(&o, &st.ctx) {
                        best = cand;
                        best_obs = o;
                        break;
                    }
                    if !tree.complicate() {
                        break 'shrink;
                    }
                }
            }
            let (sig, msg) = best_obs.fail.clone().unwrap();
            st.seen.insert(sig0);
            st.seen.insert(sig.clone());
            st.stats.failures_recorded += 1;
            lacebox::log(&format!("fuzz: FAILURE {sig}: {}", msg.lines().next().unwrap_or("")));
            if let Some(dir) = &st.out {
                let _ = std::fs::create_dir_all(dir);
                let name = format!("violation-{:016x}.json", hash_of(&sig));
                let doc = json!({ "property": st.prop.id(), "signature": sig, "message": msg, "case": best, "found_by": "libfuzzer", "profile": st.ctx.profile });
                let _ = std::fs::write(dir.join(name), serde_json::to_vec_pretty(&doc).unwrap());
            }
        }
    }
    if st.stats.inputs % 256 == 0 {
        if let Some(dir) = &st.out {
            if let Ok(mut f) = std::fs::File::create(dir.join("stats.json")) {
                let _ = f.write_all(&serde_json::to_vec(&st.stats).unwrap());
            }
        }
    }
}

/// `lace-verif fuzzcase <ID> <tape-file>`: print the case a saved tape (a libFuzzer crash
/// artifact) denotes, as a replay document.
pub fn tape_to_case(id: &str, data: &[u8]) -> Option<Value> {
    let prop = find(id);
    let strat = prop.fuzz_strategy()?;
    let tree = case_of(&strat, data)?;
    Some(json!({ "property": prop.id(), "case": tree.current(), "found_by": "libfuzzer-crash-artifact" }))
}
