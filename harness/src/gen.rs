//! Strategies for the assembler-side properties: literals, statements, programs that are
//! accepted by construction, layouts. All randomness comes from proptest; the builders are
//! pure functions of the generated raw values (so shrinking works on the raw values).

use proptest::prelude::*;
use serde::{Deserialize, Serialize};

use crate::refasm::*;

/// Label names that are valid everywhere, deliberately including look-alikes of keywords,
/// registers and hex literals.
pub const NAME_POOL: &[&str] = &[
    "loop", "r8", "result", "x_1", "xylophone", "adder", "halts", "BRx", "Foo", "foo", "_", "a1",
    // (names 7 places apart mark consecutive labels of a program: the long names come in pairs
    // that share a prefix of exactly 32, 64, 255 and 16 characters)
    "R00", "a_label_name_of_thirty_two_chars_head", "X_", "ldx", "in_", "out1", "trap_", "putss", "a_label_name_of_thirty_two_chars_tail", "L0", "L1", "L2", "msg",
    "Main", "MAIN", "end_", "brnzpx", "r10", "xg", "b2", "o", "regs", "stack_", "retss", "popp",
    "addd", "jsrrr", "x", "Y", "halt_", "LOOP", "Loop", "_1", "__", "xpush", "Xpop",
    "sixty_four_characters_shared_by_two_labels_that_differ_after_it_a",
    "p255_oooooooooooooooooooooooooooooooooooooooooooooooooooooooooooooooooooooooooooooooooooooooooooooooooooooooooooooooooooooooooooooooooooooooooooooooooooooooooooooooooooooooooooooooooooooooooooooooooooooooooooooooooooooooooooooooooooooooooooooooooooooooooooox",
    "sixteen_char_pre1",
    "xin", "xhalt", "2", "40",
    "sixty_four_characters_shared_by_two_labels_that_differ_after_it_b",
    "p255_oooooooooooooooooooooooooooooooooooooooooooooooooooooooooooooooooooooooooooooooooooooooooooooooooooooooooooooooooooooooooooooooooooooooooooooooooooooooooooooooooooooooooooooooooooooooooooooooooooooooooooooooooooooooooooooooooooooooooooooooooooooooooooy",
    "sixteen_char_pre2",
    "007", "255", "1024", "R7_SAVE", "r0_", "r3_x",
];

#[derive(Clone, Debug, Serialize, Deserialize)]
pub struct RawLit {
    /// selects a boundary value (0..7) or uniform (>= 7)
    pub cls: u8,
    pub val: i32,
    pub spell: u8,
}

pub fn raw_lit() -> impl Strategy<Value = RawLit> {
    (0u8..12, any::<i32>(), any::<u8>()).prop_map(|(cls, val, spell)| RawLit { cls, val, spell })
}

/// Spell `v` (which must be in [-32768, 65535]) as a literal.
pub fn spell(v: i32, spell: u8) -> Lit {
    let fmt = (spell >> 2) & 0xF;
    if v < 0 {
        match spell & 3 {
            0 | 1 => Lit::Dec(v),
            _ => Lit::NegHex((-v) as u16, fmt),
        }
    } else {
        match spell & 3 {
            0 => Lit::Dec(v),
            _ => Lit::Hex(v as u16, fmt),
        }
    }
}

/// A literal inside [lo, hi] drawn from boundary ∪ uniform.
pub fn lit_in(raw: &RawLit, lo: i32, hi: i32) -> Lit {
    let span = (hi as i64 - lo as i64 + 1) as i64;
    let v = match raw.cls {
        0 => lo,
        1 => lo + 1,
        2 => -1,
        3 => 0,
        4 => 1,
        5 => hi - 1,
        6 => hi,
        _ => (lo as i64 + (raw.val as i64).rem_euclid(span)) as i32,
    };
    let v = v.clamp(lo, hi);
    spell(v, raw.spell)
}

#[derive(Clone, Debug, Serialize, Deserialize)]
pub struct RawLine {
    pub kind: u8,
    pub regs: [u8; 3],
    pub lit: RawLit,
    /// prefer a label operand over a literal offset
    pub use_label: bool,
    /// selects the target among labelled lines
    pub target: u16,
    pub has_label: bool,
    pub colon: bool,
    pub brflags: u8,
    pub text: String,
    /// put a `.break` before this line
    pub brk: bool,
}

pub fn stringz_text() -> impl Strategy<Value = String> {
    let mixed = prop::collection::vec(
        crate::pick![
            6 => (0x20u32..0x7F).prop_map(|c| char::from_u32(c).unwrap()),
            1 => prop::sample::select(vec!['\n', '\t', '\r', '\\', '"']),
            1 => prop::sample::select(vec!['é', 'ß', 'λ', '日', '€', '\u{FFFD}', '\u{A0}', '\u{7FF}', '\u{800}', '\u{FFFF}']),
            // characters that tools like to treat specially: byte order mark, zero-width and
            // directional marks, line / paragraph separators, non-characters, DEL, a C1 control
            1 => prop::sample::select(vec!['\u{FEFF}', '\u{FFFE}', '\u{200B}', '\u{200E}', '\u{2028}', '\u{2029}', '\u{7F}', '\u{85}', '\u{AD}', '\u{1}']),
        ],
        0..12,
    )
    .prop_map(|v| v.into_iter().collect::<String>());
    // longer texts made mostly of 2- and 3-byte characters: byte offsets and character counts of
    // the statement text drift far apart
    let dense = prop::collection::vec(
        crate::pick![
            5 => prop::sample::select(vec!['é', 'ß', 'λ', 'ž', 'ů', 'ň', '日', '本', '€', '\u{7FF}', '\u{800}']),
            1 => prop::sample::select(vec![' ', 'a', 'k', '!']),
        ],
        6..26,
    )
    .prop_map(|v| v.into_iter().collect::<String>());
    crate::pick![8 => mixed, 1 => dense]
}

pub fn raw_line() -> impl Strategy<Value = RawLine> {
    (
        (0u8..40, any::<[u8; 3]>(), raw_lit(), any::<bool>(), any::<u16>()),
        (prop::bool::weighted(0.45), any::<bool>(), 1u8..8, stringz_text(), prop::bool::weighted(0.06)),
    )
        .prop_map(|((kind, regs, lit, use_label, target), (has_label, colon, brflags, text, brk))| RawLine {
            kind,
            regs,
            lit,
            use_label,
            target,
            has_label,
            colon,
            brflags,
            text,
            brk,
        })
}

#[derive(Clone, Debug, Serialize, Deserialize)]
pub struct RawProgram {
    pub lines: Vec<RawLine>,
    /// 0: no .orig; otherwise selects an origin
    pub orig_sel: u8,
    pub orig_val: u16,
    pub orig_spell: u8,
    pub name_off: u8,
    pub stack: bool,
}

pub fn raw_program(max_lines: usize) -> impl Strategy<Value = RawProgram> {
    (
        prop::collection::vec(raw_line(), 1..max_lines),
        0u8..8,
        any::<u16>(),
        any::<u8>(),
        any::<u8>(),
        any::<bool>(),
    )
        .prop_map(|(lines, orig_sel, orig_val, orig_spell, name_off, stack)| RawProgram {
            lines,
            orig_sel,
            orig_val,
            orig_spell,
            name_off,
            stack,
        })
}

pub fn origin_of(sel: u8, val: u16) -> Option<u16> {
    match sel {
        0 => None,
        1 => Some(0x3000),
        2 => Some(0),
        3 => Some(0x7FFF),
        4 => Some(0x8000),
        5 => Some(0xFDFF),
        6 => Some(0x0200),
        _ => Some(val),
    }
}

/// Number of op kinds `make_stmt` knows. (kind is taken modulo this.)
pub const N_KINDS: u8 = 33;

/// Build statement `kind` with a placeholder PC-relative operand (filled later).
fn proto_stmt(raw: &RawLine, stack: bool) -> Stmt {
    let r = |i: usize| raw.regs[i] & 7;
    let mut kind = raw.kind % N_KINDS;
    if !stack && (29..=32).contains(&kind) {
        kind = raw.kind % 29;
    }
    match kind {
        0 => Stmt::new(Op::Add, &[r(0), r(1)], Operand::Reg(r(2))),
        1 => Stmt::new(Op::Add, &[r(0), r(1)], Operand::Lit(lit_in(&raw.lit, -16, 15))),
        2 => Stmt::new(Op::And, &[r(0), r(1)], Operand::Reg(r(2))),
        3 => Stmt::new(Op::And, &[r(0), r(1)], Operand::Lit(lit_in(&raw.lit, -16, 15))),
        4 => Stmt::new(Op::Not, &[r(0), r(1)], Operand::None),
        5 => Stmt::new(Op::Br(raw.brflags.clamp(1, 7), raw.colon), &[], Operand::None),
        6 => Stmt::new(Op::Jmp, &[r(0)], Operand::None),
        7 => Stmt::simple(Op::Ret),
        8 => Stmt::new(Op::Jsr, &[], Operand::None),
        9 => Stmt::new(Op::Jsrr, &[r(0)], Operand::None),
        10 => Stmt::new(Op::Ld, &[r(0)], Operand::None),
        11 => Stmt::new(Op::Ldi, &[r(0)], Operand::None),
        12 => Stmt::new(Op::Lea, &[r(0)], Operand::None),
        13 => Stmt::new(Op::St, &[r(0)], Operand::None),
        14 => Stmt::new(Op::Sti, &[r(0)], Operand::None),
        15 => Stmt::new(Op::Ldr, &[r(0), r(1)], Operand::Lit(lit_in(&raw.lit, -32, 31))),
        16 => Stmt::new(Op::Str, &[r(0), r(1)], Operand::Lit(lit_in(&raw.lit, -32, 31))),
        17 => Stmt::simple(Op::Rti),
        18 => Stmt::new(Op::Trap, &[], Operand::Lit(lit_in(&raw.lit, 0, 255))),
        19 => Stmt::simple(Op::Getc),
        20 => Stmt::simple(Op::Out),
        21 => Stmt::simple(Op::Puts),
        22 => Stmt::simple(Op::In),
        23 => Stmt::simple(Op::Putsp),
        24 => Stmt::simple(Op::Halt),
        25 => Stmt::simple(if raw.colon { Op::Putn } else { Op::Reg }),
        26 => Stmt::new(Op::Fill, &[], Operand::Lit(lit_in(&raw.lit, -32768, 65535))),
        27 => {
            // mostly small blocks, occasionally larger
            let hi = if raw.lit.cls == 11 { 300 } else { 40 };
            let mut l = lit_in(&raw.lit, 0, hi);
            if l.written() < 0 || (l.written() == 0 && raw.has_label) {
                // a label on a zero-word block is unspecified: keep the block non-empty
                l = Lit::Dec(1);
            }
            Stmt::new(Op::Blkw, &[], Operand::Lit(l))
        }
        28 => Stmt::new(Op::Stringz, &[], Operand::Str(raw.text.clone())),
        29 => Stmt::new(Op::Push, &[r(0)], Operand::None),
        30 => Stmt::new(Op::Pop, &[r(0)], Operand::None),
        31 => Stmt::new(Op::Call, &[], Operand::None),
        _ => Stmt::simple(Op::Rets),
    }
}

/// Build a program that is accepted by construction.
pub fn build_program(raw: &RawProgram) -> Program {
    let stack = raw.stack;
    let mut lines: Vec<Line> = Vec::new();
    if let Some(o) = origin_of(raw.orig_sel, raw.orig_val) {
        // spelled as hex or (when it fits the unambiguous decimal range) decimal
        let l = if raw.orig_spell & 1 == 0 || o > 32767 {
            Lit::Hex(o, (raw.orig_spell >> 1) & 0xF)
        } else {
            Lit::Dec(o as i32)
        };
        lines.push(Line { label: None, body: Body::Orig(l) });
    }
    // names: distinct by construction
    let stride = 7usize; // coprime with pool length 64
    let mut k = 0usize;
    let mut stmt_line_idx = Vec::new(); // index into `lines` of each raw line's statement
    for rl in &raw.lines {
        if rl.brk {
            lines.push(Line { label: None, body: Body::Break });
        }
        let label = if rl.has_label {
            let base = NAME_POOL[(raw.name_off as usize + k * stride) % NAME_POOL.len()];
            let name = if k < NAME_POOL.len() { base.to_string() } else { format!("{base}Q{}", k / NAME_POOL.len()) };
            k += 1;
            Some((name, rl.colon))
        } else {
            None
        };
        stmt_line_idx.push(lines.len());
        lines.push(Line { label, body: Body::Stmt(proto_stmt(rl, stack)) });
    }
    debug_assert!(NAME_POOL.len() == 64);
    // word index of every line
    let mut word_idx = Vec::with_capacity(lines.len());
    let mut idx = 0usize;
    for l in &lines {
        word_idx.push(idx);
        if let Body::Stmt(s) = &l.body {
            idx += s.size().unwrap_or(0);
        }
    }
    let labelled: Vec<usize> = (0..lines.len()).filter(|i| lines[*i].label.is_some()).collect();
    // fill PC-relative operands
    for (ri, rl) in raw.lines.iter().enumerate() {
        let li = stmt_line_idx[ri];
        let Body::Stmt(s) = &lines[li].body else { continue };
        let Some(bits) = s.op.pcrel_bits() else { continue };
        let lo = -(1i64 << (bits - 1));
        let hi = (1i64 << (bits - 1)) - 1;
        let here = word_idx[li] as i64;
        let mut operand = None;
        let must_label = s.op == Op::Call;
        if (rl.use_label || must_label) && !labelled.is_empty() {
            // try the selected label, then the others, for one within reach
            let start = (rl.target as usize * labelled.len()) >> 16;
            for d in 0..labelled.len() {
                let t = labelled[(start + d) % labelled.len()];
                let delta = word_idx[t] as i64 - (here + 1);
                if delta >= lo && delta <= hi {
                    operand = Some(Operand::Label(lines[t].label.as_ref().unwrap().0.clone()));
                    break;
                }
            }
        }
        let operand = match operand {
            Some(o) => o,
            None if must_label => {
                // no label within reach: turn the statement into a harmless one
                lines[li].body = Body::Stmt(Stmt::simple(Op::Rets));
                continue;
            }
            None => Operand::Lit(lit_in(&rl.lit, lo as i32, hi as i32)),
        };
        if let Body::Stmt(s) = &mut lines[li].body {
            s.operand = operand;
        }
    }
    Program { lines }
}

pub fn layout() -> impl Strategy<Value = Layout> {
    (any::<u64>(), 0u8..4, any::<bool>()).prop_map(|(seed, style, end)| Layout { seed, style, end })
}

/// Byte sequences that tools tend to treat specially at the start of a stream, a file or a line:
/// byte order marks, a shebang, terminal escape introducers, line-ending and end-of-input controls,
/// and the characters that look like blanks. Nothing in lace's documentation gives any of them a
/// special meaning, so none may have one.
pub const STREAM_SIGNATURES: &[&[u8]] = &[
    b"\xEF\xBB\xBF", b"\xFF\xFE", b"\xFE\xFF", b"\xFF\xFE\x00\x00", b"\x00\x00\xFE\xFF", b"\xEF\xBB", b"#!", b"\x1B[", b"\x1B[A", b"\x1B", b"\r\n", b"\r", b"\x04", b"\x1A", b"\x03",
    b"\x7F", b"\x08", b"\x00", b"\xC2\xA0", b"\xE2\x80\xA8", b"\x0C", b"\x0B", b"\xC2\x85", b"\t", b"\xE2\x80\x8B", b"\xEF\xBB\xBF\xEF\xBB\xBF",
];
