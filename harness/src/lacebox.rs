//! The only module that touches lace in-process: fd redirection, fresh threads, panic capture,
//! assemble / load / run with fuel / debugger sessions / snapshots.

use std::any::Any;
use std::io::{Read, Write};
use std::os::unix::io::RawFd;
use std::sync::atomic::{AtomicBool, Ordering};
use std::sync::Mutex;

use lace::verif::{VerifExit, VerifOutOfFuel};
use lace::{Air, AsmParser, RunEnvironment, StaticSource};

// ---------------------------------------------------------------------------------------------
// fd redirection

struct Redirect {
    stdin_w: RawFd,
    stdout_r: RawFd,
    stderr_r: RawFd,
    log: RawFd,
}
static REDIRECT: Mutex<Option<Redirect>> = Mutex::new(None);
static HOOK_SET: AtomicBool = AtomicBool::new(false);

fn memfd(name: &str) -> RawFd {
    let cname = std::ffi::CString::new(name).unwrap();
    let fd = unsafe { libc::memfd_create(cname.as_ptr(), libc::MFD_CLOEXEC) };
    assert!(fd >= 0, "memfd_create failed");
    fd
}

/// Redirect fd 0/1/2 of this process to private memfds. Must be called once, before any case.
pub fn install_redirect() {
    let mut guard = REDIRECT.lock().unwrap();
    if guard.is_some() {
        return;
    }
    unsafe {
        let log = libc::fcntl(2, libc::F_DUPFD_CLOEXEC, 3);
        let fin = memfd("verif-stdin");
        let fout = memfd("verif-stdout");
        let ferr = memfd("verif-stderr");
        // separate descriptions for the harness side, so that file offsets are independent
        let path = |fd: RawFd| std::ffi::CString::new(format!("/proc/self/fd/{fd}")).unwrap();
        let stdin_w = libc::open(path(fin).as_ptr(), libc::O_WRONLY | libc::O_APPEND | libc::O_CLOEXEC);
        let stdout_r = libc::open(path(fout).as_ptr(), libc::O_RDONLY | libc::O_CLOEXEC);
        let stderr_r = libc::open(path(ferr).as_ptr(), libc::O_RDONLY | libc::O_CLOEXEC);
        assert!(stdin_w >= 0 && stdout_r >= 0 && stderr_r >= 0);
        assert!(libc::dup2(fin, 0) == 0);
        assert!(libc::dup2(fout, 1) == 1);
        assert!(libc::dup2(ferr, 2) == 2);
        libc::close(fin);
        libc::close(fout);
        libc::close(ferr);
        *guard = Some(Redirect { stdin_w, stdout_r, stderr_r, log });
    }
    install_panic_hook();
}

/// Write a diagnostic line to the original stderr of the process.
pub fn log(msg: &str) {
    let guard = REDIRECT.lock().unwrap();
    let fd = guard.as_ref().map(|r| r.log).unwrap_or(2);
    let line = format!("{msg}\n");
    unsafe {
        libc::write(fd, line.as_ptr() as *const libc::c_void, line.len());
    }
}

fn read_all_from(fd: RawFd) -> Vec<u8> {
    let mut out = Vec::new();
    let mut off: i64 = 0;
    let mut buf = [0u8; 65536];
    loop {
        let n = unsafe { libc::pread(fd, buf.as_mut_ptr() as *mut libc::c_void, buf.len(), off) };
        if n <= 0 {
            break;
        }
        out.extend_from_slice(&buf[..n as usize]);
        off += n as i64;
    }
    out
}

fn reset_fd(fd: RawFd) {
    unsafe {
        libc::ftruncate(fd, 0);
        libc::lseek(fd, 0, libc::SEEK_SET);
    }
}

/// Prepare the standard streams for a case: stdin holds exactly `input`, stdout/stderr empty.
fn io_begin(input: &[u8]) {
    let guard = REDIRECT.lock().unwrap();
    let r = guard.as_ref().expect("install_redirect not called");
    // Drain whatever an earlier case left in std's stdin buffer and in the file.
    let mut sink = Vec::new();
    let _ = std::io::stdin().lock().read_to_end(&mut sink);
    let _ = std::io::stdout().flush();
    reset_fd(0);
    reset_fd(1);
    reset_fd(2);
    if !input.is_empty() {
        let mut off = 0;
        while off < input.len() {
            let n = unsafe {
                libc::write(
                    r.stdin_w,
                    input[off..].as_ptr() as *const libc::c_void,
                    input.len() - off,
                )
            };
            assert!(n > 0, "write to stdin memfd failed");
            off += n as usize;
        }
    }
}

/// Collect what the case wrote and how much input it left unread.
fn io_end() -> (Vec<u8>, Vec<u8>, usize) {
    let _ = std::io::stdout().flush();
    let guard = REDIRECT.lock().unwrap();
    let r = guard.as_ref().expect("install_redirect not called");
    let out = read_all_from(r.stdout_r);
    let err = read_all_from(r.stderr_r);
    let mut left = Vec::new();
    let _ = std::io::stdin().lock().read_to_end(&mut left);
    reset_fd(0);
    reset_fd(1);
    reset_fd(2);
    (out, err, left.len())
}

// ---------------------------------------------------------------------------------------------
// panic capture

thread_local! {
    static LAST_PANIC: std::cell::RefCell<Option<(String, String)>> = const { std::cell::RefCell::new(None) };
    static IN_GUARD: std::cell::Cell<u32> = const { std::cell::Cell::new(0) };
}

fn install_panic_hook() {
    if HOOK_SET.swap(true, Ordering::SeqCst) {
        return;
    }
    std::panic::set_hook(Box::new(|info| {
        let msg = if let Some(s) = info.payload().downcast_ref::<&str>() {
            s.to_string()
        } else if let Some(s) = info.payload().downcast_ref::<String>() {
            s.clone()
        } else {
            "<non-string panic payload>".to_string()
        };
        let loc = info
            .location()
            .map(|l| format!("{}:{}", l.file(), l.line()))
            .unwrap_or_else(|| "<unknown>".into());
        if IN_GUARD.with(|g| g.get()) == 0 {
            // a bug in the harness itself, not in lace: make it visible
            log(&format!("harness panic: {msg} at {loc}"));
        }
        LAST_PANIC.with(|p| *p.borrow_mut() = Some((msg, loc)));
    }));
}

#[derive(Debug, Clone, PartialEq, Eq)]
pub enum Stop {
    /// The call returned normally.
    Returned,
    /// lace called `std::process::exit(code)` (typed exit hook).
    Exit(i32),
    /// The run loop used up its fuel.
    OutOfFuel,
    /// lace panicked: (message, file:line).
    Panic(String, String),
}

impl Stop {
    pub fn is_panic(&self) -> bool {
        matches!(self, Stop::Panic(..))
    }
    /// Short root-cause signature of a panic: file:line of the panic site.
    pub fn panic_sig(&self) -> String {
        match self {
            Stop::Panic(_, loc) => {
                let loc = loc.rsplit("/src/").next().unwrap_or(loc);
                format!("panic@{loc}")
            }
            _ => String::new(),
        }
    }
}

pub fn classify_public() {}
fn classify(payload: Box<dyn Any + Send>) -> Stop {
    if let Some(e) = payload.downcast_ref::<VerifExit>() {
        return Stop::Exit(e.0);
    }
    if payload.downcast_ref::<VerifOutOfFuel>().is_some() {
        return Stop::OutOfFuel;
    }
    let (msg, loc) = LAST_PANIC
        .with(|p| p.borrow_mut().take())
        .unwrap_or_else(|| ("<unknown panic>".into(), "<unknown>".into()));
    Stop::Panic(msg, loc)
}

/// Run `f`, turning unwinding into a [`Stop`].
pub fn guarded<R>(f: impl FnOnce() -> R) -> (Option<R>, Stop) {
    LAST_PANIC.with(|p| *p.borrow_mut() = None);
    IN_GUARD.with(|g| g.set(g.get() + 1));
    let r = std::panic::catch_unwind(std::panic::AssertUnwindSafe(f));
    IN_GUARD.with(|g| g.set(g.get() - 1));
    match r {
        Ok(r) => (Some(r), Stop::Returned),
        Err(payload) => (None, classify(payload)),
    }
}

/// Set while a session runs (between the load and the end of `env.run()`): the only stretch in which
/// a case thread that uses CPU without any progress counts as spinning.
static SESSION_RUNNING: std::sync::atomic::AtomicBool = std::sync::atomic::AtomicBool::new(false);
/// A spinning session was seen in this process (its thread cannot be killed and keeps a core busy).
static SPIN_SEEN: std::sync::atomic::AtomicBool = std::sync::atomic::AtomicBool::new(false);

pub fn spin_seen() -> bool {
    SPIN_SEEN.load(std::sync::atomic::Ordering::SeqCst)
}

/// CPU time used so far by the thread behind `handle` (seconds).
fn thread_cpu_s<R>(handle: &std::thread::JoinHandle<R>) -> Option<f64> {
    use std::os::unix::thread::JoinHandleExt;
    let mut clk: libc::clockid_t = 0;
    let mut ts = libc::timespec { tv_sec: 0, tv_nsec: 0 };
    unsafe {
        if libc::pthread_getcpuclockid(handle.as_pthread_t(), &mut clk) != 0 || libc::clock_gettime(clk, &mut ts) != 0 {
            return None;
        }
    }
    Some(ts.tv_sec as f64 + ts.tv_nsec as f64 * 1e-9)
}

/// Marker in the error text of `fresh_thread` for a session that spins.
pub const SPIN_MARK: &str = "session spins without progress";

/// Run `f` on a fresh thread (clean thread-locals: symbol table, features, minimal flag, line
/// tracker), with the miette handler `main.rs` installs.
pub fn fresh_thread<R: Send + 'static>(f: impl FnOnce() -> R + Send + 'static) -> Result<R, String> {
    let (tx, rx) = std::sync::mpsc::channel::<()>();
    let handle = std::thread::Builder::new()
        .stack_size(16 << 20)
        .spawn(move || {
            install_miette();
            let r = f();
            let _ = tx.send(());
            r
        })
        .expect("spawn case thread");
    // A case thread that neither finishes nor dies (blocked on a lock, say) cannot be killed: the
    // worker gives up with a distinct exit status; the master reports that as INCONCLUSIVE (what
    // had been found before is in the part file). Infrastructure, never a verdict.
    //
    // One kind of "never comes back" is decided, from the thread's state rather than from the
    // clock on the wall: while a session runs, every iteration of lace's run loop and of the
    // debugger's own loop bumps a process-wide counter (hook H7). A session thread that has burnt
    // `VERIF_SPIN_CPU_S` (20) seconds of its own CPU time without a single such iteration - no
    // instruction executed, no command fetched, fuel untouched - is spinning somewhere else: that
    // is reported to the caller as a failed session (the thread is left behind; the worker ends
    // after recording the case).
    let limit = std::env::var("VERIF_CASE_LIMIT_S").ok().and_then(|s| s.parse().ok()).unwrap_or(300u64);
    let spin_cpu: f64 = std::env::var("VERIF_SPIN_CPU_S").ok().and_then(|s| s.parse().ok()).unwrap_or(20.0);
    let t0 = std::time::Instant::now();
    let mut last_progress = lace::verif::progress();
    let mut cpu_at_progress: Option<f64> = None;
    loop {
        match rx.recv_timeout(std::time::Duration::from_millis(if t0.elapsed().as_millis() < 2000 { 2000 } else { 500 })) {
            Ok(()) | Err(std::sync::mpsc::RecvTimeoutError::Disconnected) => break,
            Err(std::sync::mpsc::RecvTimeoutError::Timeout) => {
                if SESSION_RUNNING.load(std::sync::atomic::Ordering::SeqCst) {
                    let p = lace::verif::progress();
                    let cpu = thread_cpu_s(&handle);
                    if p != last_progress || cpu_at_progress.is_none() {
                        last_progress = p;
                        cpu_at_progress = cpu;
                    } else if let (Some(now), Some(then)) = (cpu, cpu_at_progress) {
                        if now - then >= spin_cpu {
                            SPIN_SEEN.store(true, std::sync::atomic::Ordering::SeqCst);
                            SESSION_RUNNING.store(false, std::sync::atomic::Ordering::SeqCst);
                            log(&format!("harness: a session has used {:.0} s of CPU time without one iteration of the run loop or of the debugger's loop: it spins", now - then));
                            return Err(format!("{SPIN_MARK}: {:.0} s of CPU time without one iteration of the run loop or of the debugger's own loop (no instruction executed, no command fetched, fuel untouched)", now - then));
                        }
                    }
                } else {
                    cpu_at_progress = None;
                }
                if t0.elapsed().as_secs() >= limit {
                    log(&format!("harness: a case has not come back for {limit} s (thread blocked?); this worker gives up"));
                    std::process::exit(86);
                }
            }
        }
    }
    handle.join().map_err(|p| {
        if let Some(s) = p.downcast_ref::<&str>() {
            s.to_string()
        } else if let Some(s) = p.downcast_ref::<String>() {
            s.clone()
        } else {
            "case thread died".to_string()
        }
    })
}

fn install_miette() {
    static ONCE: std::sync::Once = std::sync::Once::new();
    ONCE.call_once(|| {
        let _ = miette::set_hook(Box::new(|_| {
            Box::new(
                miette::MietteHandlerOpts::new()
                    .context_lines(lace::DIAGNOSTIC_CONTEXT_LINES)
                    .color(false)
                    .unicode(false)
                    .terminal_links(false)
                    .width(200)
                    .build(),
            )
        }));
    });
}

// ---------------------------------------------------------------------------------------------
// assembling

#[derive(Debug, Clone, PartialEq, Eq)]
pub struct Image {
    pub orig: Option<u16>,
    pub words: Vec<u16>,
    /// Breakpoint addresses relative to the origin (statement indices).
    pub breakpoints: Vec<u16>,
    /// Byte spans (offset, len) of each statement in the source.
    pub spans: Vec<(usize, usize)>,
}

#[derive(Debug, Clone, PartialEq, Eq)]
pub enum AsmResult {
    Ok(Image),
    /// Diagnostic: rendered text, and the label spans (offset, len) it points at.
    Err { rendered: String, spans: Vec<(usize, usize)>, phase: &'static str },
    /// A panic somewhere in the pipeline (message, location, phase).
    Panic { msg: String, loc: String, phase: &'static str },
}

impl AsmResult {
    pub fn is_ok(&self) -> bool {
        matches!(self, AsmResult::Ok(_))
    }
}

fn report_spans(report: &miette::Report) -> Vec<(usize, usize)> {
    let mut v = Vec::new();
    if let Some(labels) = report.labels() {
        for l in labels {
            v.push((l.offset(), l.len()));
        }
    }
    v
}

fn render(report: &miette::Report, phase: &'static str) -> AsmResult {
    let spans = report_spans(report);
    let (r, stop) = guarded(|| format!("{:?}", report));
    match (r, stop) {
        (Some(rendered), _) => AsmResult::Err { rendered, spans, phase },
        (None, Stop::Panic(msg, loc)) => AsmResult::Panic { msg, loc, phase: "render" },
        (None, other) => AsmResult::Panic { msg: format!("{other:?}"), loc: String::new(), phase: "render" },
    }
}

/// What `lace`'s `assemble()` + emission do, phase by phase, on the current thread.
/// Does not touch `features` (caller initialises them once per thread) and does not call
/// `reset_state` (caller decides).
pub fn assemble_here(src: &'static str) -> (AsmResult, Option<Air>) {
    macro_rules! phase {
        ($name:literal, $e:expr) => {{
            let (r, stop) = guarded(|| $e);
            match (r, stop) {
                (Some(Ok(v)), _) => v,
                (Some(Err(report)), _) => return (render(&report, $name), None),
                (None, Stop::Panic(msg, loc)) => {
                    return (AsmResult::Panic { msg, loc, phase: $name }, None)
                }
                (None, other) => {
                    return (
                        AsmResult::Panic { msg: format!("{other:?}"), loc: String::new(), phase: $name },
                        None,
                    )
                }
            }
        }};
    }
    let parser = phase!("lex", AsmParser::new(src));
    let mut air = phase!("parse", parser.parse());
    phase!("backpatch", air.backpatch());
    let mut words = Vec::with_capacity(air.len());
    let mut spans = Vec::with_capacity(air.len());
    for i in 0..air.len() {
        let w = phase!("emit", air.get(i).emit());
        words.push(w);
        let s = air.get(i).span;
        spans.push((s.offs(), s.len()));
    }
    let breakpoints: Vec<u16> = air.breakpoints.iter().map(|b| b.address).collect();
    let image = Image { orig: air.orig(), words, breakpoints, spans };
    (AsmResult::Ok(image), Some(air))
}

/// Assemble `text` on a fresh thread with the given feature setting.
pub fn assemble(text: &str, stack: bool) -> AsmResult {
    let text = text.to_string();
    let r = fresh_thread(move || {
        init_features(stack);
        let mut source = StaticSource::new(text);
        let (res, air) = assemble_here(source.src());
        drop(air);
        source.reclaim();
        res
    });
    trim_streams();
    match r {
        Ok(r) => r,
        Err(msg) => AsmResult::Panic { msg, loc: "<thread>".into(), phase: "thread" },
    }
}

/// Assemble `texts` one after the other on ONE fresh thread, calling the documented state reset
/// (`lace::reset_state`) between consecutive assemblies, as `lace watch` does.
pub fn assemble_sequence(texts: &[String], stack: bool) -> Vec<AsmResult> {
    let texts: Vec<String> = texts.to_vec();
    let n = texts.len();
    let r = fresh_thread(move || {
        init_features(stack);
        let mut out = Vec::new();
        for text in texts {
            let mut source = StaticSource::new(text);
            let (res, air) = assemble_here(source.src());
            drop(air);
            out.push(res);
            lace::reset_state();
            source.reclaim();
        }
        out
    });
    trim_streams();
    match r {
        Ok(v) => v,
        Err(msg) => vec![AsmResult::Panic { msg, loc: "<thread>".into(), phase: "thread" }; n],
    }
}

/// Keep the redirected stdout/stderr files from growing when cases print without using them.
pub fn trim_streams() {
    let _ = std::io::stdout().flush();
    if REDIRECT.lock().unwrap().is_some() {
        reset_fd(1);
        reset_fd(2);
    }
}

pub fn init_features(stack: bool) {
    let f: lace::features::Features = if stack { "stack" } else { "" }.parse().unwrap();
    lace::features::init(f);
}

// ---------------------------------------------------------------------------------------------
// running

#[derive(Debug, Clone, PartialEq, Eq)]
pub struct Snapshot {
    pub regs: [u16; 8],
    pub pc: u16,
    pub cc: u8,
    pub orig: u16,
    pub mem: Box<[u16]>,
}

impl Snapshot {
    pub fn of(env: &RunEnvironment) -> Self {
        Snapshot {
            regs: env.verif_regs(),
            pc: env.verif_pc(),
            cc: env.verif_cc(),
            orig: env.verif_orig(),
            mem: env.verif_mem().to_vec().into_boxed_slice(),
        }
    }
}

#[derive(Debug, Clone)]
pub struct Outcome {
    pub stop: Stop,
    pub stdout: Vec<u8>,
    pub stderr: Vec<u8>,
    pub input_left: usize,
    pub ticks: u64,
    /// iterations of the debugger's own loop (hook H6)
    pub inner_ticks: u64,
    pub execs: u64,
    pub fin: Option<Snapshot>,
}

pub struct RunSpec {
    pub stack: bool,
    pub minimal: bool,
    pub fuel: u64,
    pub input: Vec<u8>,
}

/// How the machine is set up.
pub enum Load {
    /// `RunEnvironment::from_raw(origin ++ words)`
    Raw(Vec<u16>),
    /// Assemble `source`, `RunEnvironment::try_from(air, debugger)`.
    Source { text: String, debugger: Option<Option<String>> },
}

#[derive(Debug, Clone)]
pub struct Session {
    /// Assembly result when the load was from source.
    pub asm: Option<AsmResult>,
    /// Snapshot right after loading (before `run`).
    pub loaded: Option<Snapshot>,
    /// None when loading failed.
    pub outcome: Option<Outcome>,
}

/// Load and run on a fresh thread. The worker must have called [`install_redirect`].
pub fn run_session(load: Load, spec: RunSpec) -> Session {
    let r = fresh_thread(move || {
        init_features(spec.stack);
        lace::set_minimal(spec.minimal);
        let mut source_keep: Option<StaticSource> = None;
        let mut asm = None;
        io_begin(&spec.input);
        lace::verif::arm_exit(true);
        lace::verif::set_fuel(None);
        let (env, load_stop) = guarded(|| -> Option<RunEnvironment> {
            match load {
                Load::Raw(raw) => RunEnvironment::from_raw(&raw).ok(),
                Load::Source { text, debugger } => {
                    let source = StaticSource::new(text);
                    let src = source.src();
                    source_keep = Some(source);
                    let (res, air) = assemble_here(src);
                    asm = Some(res);
                    let air = air?;
                    let opts = debugger.map(|command| lace::debugger::Options { command });
                    RunEnvironment::try_from(air, opts).ok()
                }
            }
        });
        let mut session = Session { asm, loaded: None, outcome: None };
        let env = match (env, load_stop) {
            (Some(Some(env)), _) => Some(env),
            (Some(None), _) => None,
            (None, stop) => {
                let (stdout, stderr, input_left) = io_end();
                session.outcome = Some(Outcome {
                    stop,
                    stdout,
                    stderr,
                    input_left,
                    ticks: 0,
                    inner_ticks: 0,
                    execs: 0,
                    fin: None,
                });
                None
            }
        };
        if let Some(mut env) = env {
            session.loaded = Some(Snapshot::of(&env));
            lace::verif::set_fuel(Some(spec.fuel));
            SESSION_RUNNING.store(true, std::sync::atomic::Ordering::SeqCst);
            let (_, stop) = guarded(|| env.run());
            SESSION_RUNNING.store(false, std::sync::atomic::Ordering::SeqCst);
            let ticks = lace::verif::ticks();
            let inner_ticks = lace::verif::inner_ticks();
            let execs = lace::verif::execs();
            lace::verif::set_fuel(None);
            let (stdout, stderr, input_left) = io_end();
            session.outcome = Some(Outcome {
                stop,
                stdout,
                stderr,
                input_left,
                ticks,
                inner_ticks,
                execs,
                fin: Some(Snapshot::of(&env)),
            });
            drop(env);
        } else if session.outcome.is_none() {
            let _ = io_end();
        }
        lace::verif::arm_exit(false);
        if let Some(mut s) = source_keep {
            s.reclaim();
        }
        session
    });
    match r {
        Ok(s) => s,
        Err(msg) => Session {
            asm: None,
            loaded: None,
            outcome: Some(Outcome {
                stop: if msg.starts_with(SPIN_MARK) { Stop::Panic(msg, "<spin>".into()) } else { Stop::Panic(msg, "<thread>".into()) },
                stdout: vec![],
                stderr: vec![],
                input_left: 0,
                ticks: 0,
                inner_ticks: 0,
                execs: 0,
                fin: None,
            }),
        },
    }
}

/// Strip ANSI SGR sequences (`ESC [ ... m`).
pub fn strip_sgr(bytes: &[u8]) -> Vec<u8> {
    let mut out = Vec::with_capacity(bytes.len());
    let mut i = 0;
    while i < bytes.len() {
        if bytes[i] == 0x1b && i + 1 < bytes.len() && bytes[i + 1] == b'[' {
            let mut j = i + 2;
            while j < bytes.len() && bytes[j] != b'm' {
                j += 1;
            }
            i = j + 1;
            continue;
        }
        out.push(bytes[i]);
        i += 1;
    }
    out
}

// ---------------------------------------------------------------------------------------------
// A machine that is reused for many single-instruction cases on one thread (C02)

pub struct Machine {
    pub env: RunEnvironment,
}

pub struct Exec {
    pub stop: Stop,
    pub stdout: Vec<u8>,
    pub input_left: usize,
}

impl Machine {
    /// Must be called on a thread whose features are initialised.
    pub fn new() -> Self {
        lace::verif::arm_exit(true);
        lace::verif::set_fuel(None);
        let mut env = RunEnvironment::from_raw(&[0x3000]).expect("from_raw");
        env.verif_mem_mut()[0x3000] = 0;
        Machine { env }
    }

    /// Execute one instruction word on the current state. With `io = Some(input)` the standard
    /// streams are prepared and collected (needed for TRAP words only).
    pub fn exec(&mut self, word: u16, io: Option<&[u8]>) -> Exec {
        if let Some(input) = io {
            io_begin(input);
        }
        let env = &mut self.env;
        let (_, stop) = guarded(|| env.verif_execute(word));
        let (stdout, input_left) = if io.is_some() {
            let (out, _err, left) = io_end();
            (out, left)
        } else {
            (Vec::new(), 0)
        };
        Exec { stop, stdout, input_left }
    }
}
