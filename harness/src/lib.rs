//! lace-verif library: oracles, generators, the engine and the per-property checks. The binary
//! (`main.rs`) is the master/worker/replay front end; the libFuzzer targets under `fuzz/` use the
//! same checks through `fuzzmode`.

#[macro_use]
pub mod pick;
pub mod cli;
pub mod dbgcheck;
pub mod engine;
pub mod fuzzmode;
pub mod gen;
pub mod lacebox;
pub mod proggen;
pub mod props;
pub mod refasm;
pub mod refcmd;
pub mod refdbg;
pub mod refedit;
pub mod refvm;
