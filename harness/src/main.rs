//! lace-verif: property-based verification harness for rozukke/lace.
//!
//!   lace-verif run <ID> <quick|thorough>        master: replays, workers, evidence, verdict
//!   lace-verif worker <ID> <tier> <seed> <w> <n> <part-file> [journal]
//!   lace-verif replay <ID> <file>...            strict replay of saved cases
//!   lace-verif fuzzcase <ID> <tape>            the case a libFuzzer input denotes, as a replay document
//!   lace-verif list

use lace_verif::{engine, lacebox, props};

use std::collections::BTreeSet;
use std::path::{Path, PathBuf};
use std::process::{Command, Stdio};

use engine::*;
use serde_json::{json, Value};

fn verif_dir() -> PathBuf {
    PathBuf::from(std::env::var("VERIF_DIR").unwrap_or_else(|_| "/verif".into()))
}
fn evidence_dir() -> PathBuf {
    std::env::var("VERIF_EVIDENCE_DIR")
        .map(PathBuf::from)
        .unwrap_or_else(|_| verif_dir().join("evidence"))
}
fn scratch_dir() -> PathBuf {
    std::env::var("VERIF_SCRATCH")
        .map(PathBuf::from)
        .unwrap_or_else(|_| verif_dir().join("target").join("run"))
}
fn profile_name() -> String {
    std::env::var("VERIF_PROFILE").unwrap_or_else(|_| {
        if cfg!(debug_assertions) { "A".into() } else { "B".into() }
    })
}

fn parse_tier(s: &str) -> Tier {
    match s {
        "quick" => Tier::Quick,
        "thorough" => Tier::Thorough,
        _ => {
            eprintln!("unknown tier {s}");
            std::process::exit(2)
        }
    }
}

fn find_prop(id: &str) -> &'static dyn Prop {
    for p in props::all() {
        if p.id().eq_ignore_ascii_case(id) {
            return p;
        }
    }
    eprintln!("INCONCLUSIVE property={id} unknown property id");
    std::process::exit(2)
}

fn known_set(id: &str) -> (BTreeSet<String>, Vec<KnownEntry>) {
    let kf = load_known(&verif_dir());
    let entries: Vec<KnownEntry> = kf.known.into_iter().filter(|k| k.property == id).collect();
    (entries.iter().map(|k| k.signature.clone()).collect(), entries)
}

fn main() {
    let args: Vec<String> = std::env::args().collect();
    if args.len() < 2 {
        eprintln!("usage: lace-verif run|worker|replay|list ...");
        std::process::exit(2);
    }
    match args[1].as_str() {
        "list" => {
            for p in props::all() {
                println!("{}", p.id());
            }
        }
        "run" => master(&args[2], parse_tier(&args[3])),
        "worker" => worker(&args[2..]),
        "replay" => replay_cmd(&args[2], &args[3..]),
        // decode a libFuzzer tape (crash artifact of a coverage-guided target) into a replay document
        "fuzzseeds" => {
            let n = lace_verif::fuzzmode::write_seeds(&args[2], Path::new(&args[3]), args[4].parse().unwrap_or(64), args.get(5).and_then(|s| s.parse().ok()).unwrap_or(0));
            println!("{n}");
        }
        "fuzzprobe" => {
            let (worst, mean) = lace_verif::fuzzmode::probe(&args[2], args.get(3).and_then(|s| s.parse().ok()).unwrap_or(50));
            println!("{} tape bytes used: worst {worst}, mean {mean}", args[2]);
        }
        "fuzzcase" => {
            let data = std::fs::read(&args[3]).unwrap_or_default();
            match lace_verif::fuzzmode::tape_to_case(&args[2], &data) {
                Some(doc) => println!("{}", serde_json::to_string(&doc).unwrap()),
                None => std::process::exit(3),
            }
        }
        other => {
            eprintln!("unknown subcommand {other}");
            std::process::exit(2);
        }
    }
}

// ---------------------------------------------------------------------------------------------

fn worker(a: &[String]) {
    let id = a[0].clone();
    let tier = parse_tier(&a[1]);
    let seed: u64 = a[2].parse().expect("seed");
    let w: usize = a[3].parse().expect("worker");
    let n: usize = a[4].parse().expect("nworkers");
    let part = PathBuf::from(&a[5]);
    let journal = a.get(6).map(PathBuf::from);
    let prop = find_prop(&id);
    let (known, _) = known_set(prop.id());
    let ctx = Ctx {
        id: prop.id().to_string(),
        tier,
        seed,
        worker: w,
        nworkers: n,
        profile: profile_name(),
        known,
        journal,
        part: Some(part.clone()),
    };
    let _ = std::fs::remove_file(&part);
    lacebox::install_redirect();
    let mut rep = Report::default();
    prop.run_worker(&ctx, &mut rep);
    std::fs::write(&part, serde_json::to_vec(&rep).unwrap()).expect("write part file");
}

/// Replay files given on the command line (or a worker-mode replay of the regression dir).
fn replay_cmd(id: &str, files: &[String]) {
    let prop = find_prop(id);
    let (known, _) = known_set(prop.id());
    let ctx = Ctx {
        id: prop.id().to_string(),
        tier: Tier::Quick,
        seed: 0,
        worker: 0,
        nworkers: 1,
        profile: profile_name(),
        known,
        journal: None,
        part: None,
    };
    // results go to the real stdout, so keep a handle before redirecting
    let out_fd = unsafe { libc::dup(1) };
    lacebox::install_redirect();
    let mut results = Vec::new();
    for f in files {
        let bytes = std::fs::read(f).unwrap_or_default();
        let doc: Value = serde_json::from_slice(&bytes).unwrap_or(Value::Null);
        let case = doc.get("case").cloned().unwrap_or(doc.clone());
        let obs = prop.replay(&ctx, &case);
        results.push(json!({
            "file": f,
            "fail": obs.fail.as_ref().map(|(s, m)| json!({"signature": s, "message": m})),
            "known": obs.fail.as_ref().map(|(s, _)| ctx.known.contains(s)).unwrap_or(false),
        }));
    }
    let text = serde_json::to_string(&results).unwrap() + "\n";
    unsafe {
        libc::write(out_fd, text.as_ptr() as *const libc::c_void, text.len());
    }
}

// ---------------------------------------------------------------------------------------------

struct Bin {
    profile: String,
    path: PathBuf,
}

fn bins() -> Vec<Bin> {
    // VERIF_BINS="A=/path,B=/path"; default: this executable only
    match std::env::var("VERIF_BINS") {
        Ok(s) if !s.is_empty() => s
            .split(',')
            .filter_map(|kv| {
                let (k, v) = kv.split_once('=')?;
                Some(Bin { profile: k.to_string(), path: PathBuf::from(v) })
            })
            .collect(),
        _ => vec![Bin { profile: profile_name(), path: std::env::current_exe().unwrap() }],
    }
}

fn master(id: &str, tier: Tier) {
    let start = now();
    // deterministic plain-text output from the `colored` crate in workers and CLI children
    std::env::remove_var("CLICOLOR_FORCE");
    std::env::set_var("NO_COLOR", "1");
    let prop = find_prop(id);
    let id = prop.id();
    let seed: u64 = std::env::var("VERIF_SEED").ok().and_then(|s| s.parse().ok()).unwrap_or(0);
    let nworkers: usize = std::env::var("VERIF_WORKERS")
        .ok()
        .and_then(|s| s.parse().ok())
        .unwrap_or_else(|| std::thread::available_parallelism().map(|n| n.get()).unwrap_or(4).min(16));
    let (_, known_entries) = known_set(id);
    let scratch = scratch_dir().join(format!("{id}-{}", std::process::id()));
    let _ = std::fs::remove_dir_all(&scratch);
    std::fs::create_dir_all(&scratch).expect("scratch dir");

    let all_bins = bins();
    let wanted = prop.profiles(tier);
    let use_bins: Vec<&Bin> = all_bins.iter().filter(|b| wanted.contains(&b.profile.as_str())).collect();
    if use_bins.is_empty() {
        println!("INCONCLUSIVE property={id} no harness binary for profiles {wanted:?}");
        std::process::exit(2);
    }

    let mut total = Report::default();
    let mut violations: Vec<(String, String, PathBuf)> = Vec::new(); // (sig, msg, replay path)
    let mut infra: Vec<String> = Vec::new();

    // 1. regression replays (strict), with every profile in use
    let replay_dir = verif_dir().join("replays").join(id);
    let mut replay_files: Vec<PathBuf> = std::fs::read_dir(&replay_dir)
        .map(|rd| rd.filter_map(|e| e.ok()).map(|e| e.path()).filter(|p| p.extension().map(|e| e == "json").unwrap_or(false)).collect())
        .unwrap_or_default();
    replay_files.sort();
    let mut replayed = 0usize;
    let mut known_seen: BTreeSet<String> = BTreeSet::new();
    if !replay_files.is_empty() {
        for bin in &use_bins {
            let out = Command::new(&bin.path)
                .arg("replay")
                .arg(id)
                .args(&replay_files)
                .env("VERIF_PROFILE", &bin.profile)
                .stdin(Stdio::null())
                .stderr(Stdio::inherit())
                .output();
            match out {
                Ok(o) if o.status.success() => {
                    let results: Vec<Value> = serde_json::from_slice(&o.stdout).unwrap_or_default();
                    if results.len() != replay_files.len() {
                        infra.push(format!("replay produced {} results for {} files", results.len(), replay_files.len()));
                    }
                    for r in results {
                        replayed += 1;
                        if let Some(f) = r.get("fail").filter(|f| !f.is_null()) {
                            let sig = f["signature"].as_str().unwrap_or("").to_string();
                            if r["known"].as_bool().unwrap_or(false) {
                                known_seen.insert(sig);
                            } else {
                                violations.push((
                                    sig,
                                    format!("[profile {}] {}", bin.profile, f["message"].as_str().unwrap_or("")),
                                    PathBuf::from(r["file"].as_str().unwrap_or("")),
                                ));
                            }
                        }
                    }
                }
                Ok(o) => {
                    // a replay crashed the process: find which one by replaying one at a time
                    let mut found = false;
                    for f in &replay_files {
                        let one = Command::new(&bin.path).arg("replay").arg(id).arg(f)
                            .env("VERIF_PROFILE", &bin.profile).stdin(Stdio::null()).output();
                        if let Ok(one) = one {
                            if !one.status.success() {
                                violations.push(("crash".into(), format!("[profile {}] replay crashed the process: {:?}", bin.profile, one.status), f.clone()));
                                found = true;
                            }
                        }
                    }
                    if !found {
                        infra.push(format!("replay process failed: {:?}", o.status));
                    }
                }
                Err(e) => infra.push(format!("cannot start replay: {e}")),
            }
        }
    }

    // 2. workers
    let mut profiles_used = Vec::new();
    for bin in &use_bins {
        profiles_used.push(bin.profile.clone());
        let mut children = Vec::new();
        for w in 0..nworkers {
            let part = scratch.join(format!("part-{}-{w}.json", bin.profile));
            let child = Command::new(&bin.path)
                .arg("worker")
                .arg(id)
                .arg(tier.name())
                .arg(seed.to_string())
                .arg(w.to_string())
                .arg(nworkers.to_string())
                .arg(&part)
                .env("VERIF_PROFILE", &bin.profile)
                .stdin(Stdio::null())
                .stdout(Stdio::null())
                .stderr(Stdio::inherit())
                .spawn();
            match child {
                Ok(c) => children.push((w, part, c)),
                Err(e) => infra.push(format!("cannot start worker {w}: {e}")),
            }
        }
        // infrastructure watchdog: a worker that neither finishes nor dies is killed; this is
        // reported as INCONCLUSIVE (exit 2), never as a violation
        let limit = std::time::Duration::from_secs(std::env::var("VERIF_WORKER_LIMIT_S").ok().and_then(|s| s.parse().ok()).unwrap_or(match tier {
            Tier::Quick => 900,
            Tier::Thorough => 7200,
        }));
        let t0 = std::time::Instant::now();
        for (w, part, mut child) in children {
            loop {
                match child.try_wait() {
                    Ok(Some(_)) => break,
                    Ok(None) if t0.elapsed() > limit => {
                        let _ = child.kill();
                        infra.push(format!("worker {w} (profile {}) exceeded the {}s watchdog and was killed", bin.profile, limit.as_secs()));
                        break;
                    }
                    Ok(None) => std::thread::sleep(std::time::Duration::from_millis(50)),
                    Err(_) => break,
                }
            }
            if infra.iter().any(|i| i.contains(&format!("worker {w} (profile {}) exceeded", bin.profile))) {
                let _ = child.wait();
                // what the worker had found before it hung was flushed to its part file
                if let Some(rep) = std::fs::read(&part).ok().and_then(|b| serde_json::from_slice::<Report>(&b).ok()) {
                    for f in &rep.failures {
                        let path = save_replay(&scratch, id, f);
                        violations.push((f.signature.clone(), format!("[profile {}] {}", f.profile, f.message), path));
                    }
                    total.merge(rep);
                }
                continue;
            }
            let status = child.wait();
            if status.as_ref().ok().and_then(|s| s.code()) == Some(86) {
                // the worker gave up on a case that never came back (see lacebox::fresh_thread)
                infra.push(format!("worker {w} (profile {}) was stuck in one case (a blocked thread cannot be diagnosed from inside the process)", bin.profile));
                if let Some(rep) = std::fs::read(&part).ok().and_then(|b| serde_json::from_slice::<Report>(&b).ok()) {
                    for f in &rep.failures {
                        let path = save_replay(&scratch, id, f);
                        violations.push((f.signature.clone(), format!("[profile {}] {}", f.profile, f.message), path));
                    }
                    total.merge(rep);
                }
                continue;
            }
            let ok = status.as_ref().map(|s| s.success()).unwrap_or(false);
            let parsed: Option<Report> = std::fs::read(&part).ok().and_then(|b| serde_json::from_slice(&b).ok());
            match (ok, parsed) {
                (true, Some(rep)) => {
                    for f in &rep.failures {
                        let path = save_replay(&scratch, id, f);
                        violations.push((f.signature.clone(), format!("[profile {}] {}", f.profile, f.message), path));
                    }
                    for k in rep.known_hits.keys() {
                        known_seen.insert(k.clone());
                    }
                    total.merge(rep);
                }
                _ => {
                    // The worker died (abort, stack overflow, signal, OOM). Re-run it with a
                    // journal to find the case that killed it.
                    let jpath = scratch.join(format!("journal-{}-{w}.json", bin.profile));
                    let st = Command::new(&bin.path)
                        .arg("worker").arg(id).arg(tier.name()).arg(seed.to_string())
                        .arg(w.to_string()).arg(nworkers.to_string()).arg(&part).arg(&jpath)
                        .env("VERIF_PROFILE", &bin.profile)
                        .stdin(Stdio::null()).stdout(Stdio::null()).stderr(Stdio::inherit())
                        .status();
                    let died_again = !st.map(|s| s.success()).unwrap_or(false);
                    let case: Option<Value> = std::fs::read(&jpath).ok().and_then(|b| serde_json::from_slice(&b).ok());
                    match (died_again, case) {
                        (true, Some(case)) => {
                            let f = Failure {
                                signature: format!("{id}:process-crash"),
                                message: format!("worker process died while judging this case ({status:?})"),
                                case,
                                profile: bin.profile.clone(),
                            };
                            let path = save_replay(&scratch, id, &f);
                            violations.push((f.signature.clone(), format!("[profile {}] {}", f.profile, f.message), path));
                        }
                        _ => infra.push(format!("worker {w} (profile {}) failed without a reproducible case: {status:?}", bin.profile)),
                    }
                }
            }
        }
    }

    // 3. verdict
    let mut known_printed = Vec::new();
    for k in &known_entries {
        // a listed finding is reported on every run (it is a property of the tree, found earlier)
        println!("KNOWN-FINDING: property={id} {} [{}]{}", k.what, k.signature,
            if known_seen.contains(&k.signature) { " (reproduced in this run)" } else { "" });
        known_printed.push(k.signature.clone());
    }
    // persist violation replays under /verif/replays/<id>/found-*.json? No: the regression dir is
    // curated by hand. Found cases live under evidence_dir()/violations/.
    let vio_dir = evidence_dir().join("violations").join(id);
    let mut printed = BTreeSet::new();
    let mut n_viol = 0;
    for (sig, msg, path) in &violations {
        n_viol += 1;
        let dest = if path.starts_with(&scratch) {
            let _ = std::fs::create_dir_all(&vio_dir);
            let d = vio_dir.join(path.file_name().unwrap());
            let _ = std::fs::copy(path, &d);
            d
        } else {
            path.clone()
        };
        if printed.insert(sig.clone()) || printed.len() < 8 {
            eprintln!("violation [{sig}] {msg}");
            println!("VIOLATION property={id} replay={}", dest.display());
        }
    }
    total.inconclusive.extend(infra.iter().cloned());
    let wall = start.elapsed().as_secs_f64();
    write_evidence(
        &evidence_dir().join(format!("{id}.json")),
        EvidenceInput {
            prop,
            tier,
            seed,
            report: &total,
            wall,
            profiles: profiles_used,
            violations: n_viol,
            replayed,
            known_printed,
        },
    );
    let _ = std::fs::remove_dir_all(&scratch);
    println!(
        "{id} {}: evaluations={} distinct_nontrivial={} violations={} known_hits={:?} wall={:.1}s",
        tier.name(), total.evaluations, total.nontrivial.len(), n_viol, total.known_hits, wall
    );
    if n_viol > 0 {
        std::process::exit(1);
    }
    if !infra.is_empty() {
        for i in &infra {
            println!("INCONCLUSIVE property={id} {i}");
        }
        std::process::exit(2);
    }
}

fn save_replay(scratch: &Path, id: &str, f: &Failure) -> PathBuf {
    let h = hash_of(&(f.signature.as_str(), f.case.to_string()));
    let name = format!("{id}-{:016x}.json", h);
    let path = scratch.join(&name);
    let doc = json!({
        "property": id,
        "signature": f.signature,
        "message": f.message,
        "profile": f.profile,
        "case": f.case,
    });
    let _ = std::fs::write(&path, serde_json::to_vec_pretty(&doc).unwrap());
    path
}
