//! `pick![w => s, ...]`: a weighted union of strategies that never forks the runner's RNG.
//!
//! proptest's `prop_oneof!` keeps the alternatives *before* the chosen one as lazily generated
//! trees (so that shrinking can move to an earlier alternative), and each of those takes a forked
//! RNG. With the `PassThrough` RNG that the coverage-guided stage uses, every fork hands half of
//! the remaining tape to the child, so a generator with a few dozen unions exhausts any tape.
//! `pick!` draws the choice and the chosen value from the runner's own RNG and nothing else; the
//! value shrinks within the chosen alternative only.

use std::fmt::Debug;

use proptest::strategy::{BoxedStrategy, NewTree, Strategy, ValueTree};
use proptest::test_runner::TestRunner;
use rand::Rng;

#[derive(Clone, Debug)]
pub struct Pick<T: Debug>(pub Vec<(u32, BoxedStrategy<T>)>);

impl<T: Debug + 'static> Strategy for Pick<T> {
    type Tree = Box<dyn ValueTree<Value = T>>;
    type Value = T;
    fn new_tree(&self, runner: &mut TestRunner) -> NewTree<Self> {
        let total: u32 = self.0.iter().map(|(w, _)| *w).sum();
        // a power-of-two draw keeps the mapping byte-local for the tape-driven RNG
        let x = ((runner.rng().random::<u32>() as u64 * total as u64) >> 32) as u32;
        let mut acc = 0;
        for (w, s) in &self.0 {
            acc += *w;
            if x < acc {
                return s.new_tree(runner);
            }
        }
        self.0.last().expect("pick! of nothing").1.new_tree(runner)
    }
}

#[macro_export]
macro_rules! pick {
    ($($w:expr => $s:expr),+ $(,)?) => {
        $crate::pick::Pick(vec![$(($w as u32, proptest::strategy::Strategy::boxed($s))),+])
    };
    ($($s:expr),+ $(,)?) => {
        $crate::pick::Pick(vec![$((1u32, proptest::strategy::Strategy::boxed($s))),+])
    };
}

/// `Some(value)` with probability `p`, without forking the RNG (`prop::option::weighted` is a
/// union and forks).
pub fn opt<S: Strategy + 'static>(p: f64, s: S) -> impl Strategy<Value = Option<S::Value>>
where
    S::Value: Clone,
{
    (proptest::bool::weighted(p), s).prop_map(|(some, v)| if some { Some(v) } else { None })
}
