//! ProgGen: programs that terminate by construction — straight-line ALU/memory blocks over a
//! scratch data area, counted loops, forward skips, subroutines in both conventions (JSR/RET with
//! R7 saved, CALL/RETS incl. bounded recursion), self-modifying stores, output and input traps,
//! and a choice of ending. Built from a flat vector of ops (shrinks well); the result is a RefAsm
//! `Program`, so the same case gives source text for lace and an encoding for RefVM.

use proptest::prelude::*;
use serde::{Deserialize, Serialize};

use crate::refasm::*;

#[derive(Clone, Debug, Serialize, Deserialize, PartialEq, Eq, Hash)]
pub enum PgOp {
    /// add/and/not on r0..r3: (kind, dr, sr1, sr2-or-imm selector, imm)
    Alu(u8, u8, u8, u8, i8),
    /// ld/st/ldi/sti/lea+ldr/lea+str on the data area: (kind, reg, slot, offset)
    Mem(u8, u8, u8, u8),
    /// out / puts / putsp / putn / reg with R0 prepared: (kind, slot)
    Out(u8, u8),
    /// getc / in
    In(bool),
    /// counted loop begin (trip count 1..=4)
    LoopBegin(u8),
    LoopEnd,
    /// forward conditional skip over the next `n` ops: (nzp, n)
    Skip(u8, u8),
    /// call subroutine k (if it exists and is deeper than the current one)
    Call(u8),
    /// overwrite a later instruction slot with a generated ALU instruction, executed afterwards
    SelfMod(u8, u8, i8),
    /// push rX ... pop rY (only with the stack feature)
    PushPop(u8, u8),
    /// `.break` before the next instruction
    Break,
    /// the "get PC" idiom: a call whose target is the very next address
    /// (0: `jsr L` / `L:`, 1: `lea r3 L; jsrr r3` / `L:`, 2: `call L` / `L: pop r3` with the stack feature)
    GetPc(u8),
    /// write a short string across the top of memory (0xFFFE, 0xFFFF, 0x0000, 0x0001) through
    /// pointers and print it with PUTS (false) / PUTSP (true): address arithmetic wraps
    WrapStr(bool),
    /// read a character (GETC, or IN when true) and print what R0 holds as a number (PUTN)
    InShow(bool),
    /// compute a stack-extension word that the image does not hold (x6A00+k doubled = xD400+2k,
    /// `push r0`), store it over a later slot and run into it (main program only; the stack
    /// pointer is put back afterwards)
    SynthD(u8),
}

#[derive(Clone, Copy, Debug, Serialize, Deserialize, PartialEq, Eq, Hash)]
pub enum Ending {
    Halt,
    /// run off the end into the implicit HALT (only possible when nothing follows main: data and
    /// subroutines are then placed before main)
    RunOff,
    /// computed jump to 0xFFFF
    JmpFfff,
    /// computed jump below the origin (needs origin > 0)
    BelowOrigin,
    /// computed jump to an address >= 0xFE00 (not 0xFFFF)
    AboveUser,
    /// trap with an unimplemented vector
    UnknownTrap,
    /// a raw 0xD word (`.fill`) reached at run time
    RawD,
    /// HALT in the middle: halt, then more code that is never reached
    HaltMiddle,
}

#[derive(Clone, Debug, Serialize, Deserialize, PartialEq, Eq, Hash)]
pub struct ProgSpec {
    pub main: Vec<PgOp>,
    pub subs: Vec<Vec<PgOp>>,
    /// per sub: true = CALL/RETS convention (needs the stack feature), false = JSR/RET
    pub sub_call: Vec<bool>,
    pub ending: Ending,
    pub orig_sel: u8,
    pub orig_val: u16,
    pub stack: bool,
    /// recursion depth for the recursive subroutine (0 = none; needs the stack feature)
    pub recursion: u8,
    pub data: Vec<u16>,
    pub strings: Vec<String>,
    /// when set, the program is this raw word image written as `.fill` lines (arbitrary
    /// instruction mixes for the debugger properties); everything else but the origin is ignored
    #[serde(default)]
    pub raw_words: Option<Vec<u16>>,
    /// where the image ends (n = number of words, so the loader's HALT sentinel sits at origin+n):
    /// 0 = wherever it ends; 1/2/3 = a trailing `.blkw` makes origin+n = 0xFFFF (the largest
    /// loadable image) / 0xFFFE / 0xFE00; 4/5 = the origin is chosen so that origin+n = 0xFDFF (the
    /// sentinel is the last user word) / 0xFE00 (the last statement is the last user word)
    #[serde(default)]
    pub fit: u8,
    /// 0 = none; otherwise the program starts with a 16-bit countdown loop of 32,767 / 32,768 /
    /// 65,535 / 65,536 iterations (two instructions each): one stretch of execution longer than
    /// any 16-bit counter
    #[serde(default)]
    pub spin: u8,
}

pub fn pg_op() -> impl Strategy<Value = PgOp> {
    crate::pick![
        8 => (0u8..6, 0u8..4, 0u8..4, 0u8..8, -16i8..16).prop_map(|(k, d, s, t, i)| PgOp::Alu(k, d, s, t, i)),
        6 => (0u8..7, 0u8..4, 0u8..8, 0u8..8).prop_map(|(k, r, s, o)| PgOp::Mem(k, r, s, o)),
        3 => (0u8..5, 0u8..4).prop_map(|(k, s)| PgOp::Out(k, s)),
        1 => any::<bool>().prop_map(PgOp::In),
        1 => any::<bool>().prop_map(PgOp::InShow),
        2 => (1u8..5).prop_map(PgOp::LoopBegin),
        2 => Just(PgOp::LoopEnd),
        2 => (1u8..8, 1u8..3).prop_map(|(f, n)| PgOp::Skip(f, n)),
        3 => (0u8..3).prop_map(PgOp::Call),
        1 => (0u8..4, 0u8..4, -16i8..16).prop_map(|(d, s, i)| PgOp::SelfMod(d, s, i)),
        1 => (0u8..4, 0u8..4).prop_map(|(a, b)| PgOp::PushPop(a, b)),
        1 => Just(PgOp::Break),
        1 => (0u8..3).prop_map(PgOp::GetPc),
        1 => any::<bool>().prop_map(PgOp::WrapStr),
        1 => (0u8..32).prop_map(PgOp::SynthD),
    ]
}

pub fn ending() -> impl Strategy<Value = Ending> {
    crate::pick![
        5 => Just(Ending::Halt),
        2 => Just(Ending::RunOff),
        2 => Just(Ending::JmpFfff),
        1 => Just(Ending::BelowOrigin),
        1 => Just(Ending::AboveUser),
        1 => Just(Ending::UnknownTrap),
        1 => Just(Ending::RawD),
        1 => Just(Ending::HaltMiddle),
    ]
}

fn pg_string() -> impl Strategy<Value = String> {
    prop::collection::vec(
        crate::pick![
            8 => (0x20u32..0x7F).prop_map(|c| char::from_u32(c).unwrap()),
            1 => Just('\n'),
            1 => prop::sample::select(vec!['é', 'ÿ', '\u{A0}', '\u{80}']),
        ],
        0..7,
    )
    .prop_map(|v| v.into_iter().collect())
}

pub fn prog_spec(max_main: usize) -> impl Strategy<Value = ProgSpec> {
    (
        prop::collection::vec(pg_op(), 0..max_main),
        prop::collection::vec(prop::collection::vec(pg_op(), 0..10), 0..4),
        prop::collection::vec(any::<bool>(), 3),
        ending(),
        (0u8..10, any::<u16>()),
        any::<bool>(),
        0u8..4,
        prop::collection::vec(crate::pick![3 => any::<u16>(), 1 => 0u16..4, 1 => Just(0xFFFF), 1 => Just(0x8000)], 8),
        prop::collection::vec(pg_string(), 3),
        crate::pick![12 => Just(0u8), 1 => 1u8..6],
    )
        .prop_map(|(main, subs, sub_call, ending, (orig_sel, orig_val), stack, recursion, data, strings, fit)| ProgSpec {
            main,
            subs,
            sub_call,
            ending,
            orig_sel,
            orig_val,
            stack,
            recursion,
            data,
            strings,
            raw_words: None,
            fit,
            spin: 0,
        })
}

/// Give a few percent of the specs a long countdown loop (see `ProgSpec::spin`); checks that use it
/// add `extra_budget` to their instruction budgets.
pub fn with_spin(s: impl Strategy<Value = ProgSpec>) -> impl Strategy<Value = ProgSpec> {
    (s, crate::pick![40 => Just(0u8), 1 => 1u8..5]).prop_map(|(mut spec, spin)| {
        if spec.raw_words.is_none() {
            spec.spin = spin;
        }
        spec
    })
}

/// Instructions the countdown loop of `spec` executes (plus a margin).
pub fn extra_budget(spec: &ProgSpec) -> u64 {
    if spec.spin > 0 && spec.raw_words.is_none() { 140_000 } else { 0 }
}

/// ProgSpec whose program is an arbitrary word image (never containing RTI encodings).
pub fn raw_image_spec(words: impl Strategy<Value = Vec<u16>>) -> impl Strategy<Value = ProgSpec> {
    (prog_spec(1), words).prop_map(|(mut spec, words)| {
        spec.raw_words = Some(words.into_iter().map(|w| if w >> 12 == 8 { w & 0x0FFF | 0x1000 } else { w }).collect());
        spec
    })
}

#[derive(Clone, Debug)]
pub struct Built {
    pub program: Program,
    pub orig: u16,
    pub stack: bool,
    /// word index (relative to the origin) of every instruction that a `.break` marks
    pub breaks: Vec<u16>,
}

struct B {
    lines: Vec<Line>,
    pending: Option<String>,
    n_label: usize,
    brk: bool,
}

impl B {
    fn label(&mut self, name: String) {
        if self.pending.is_some() {
            // two labels on one statement are not possible: separate them with a no-op
            self.emit(Stmt::new(Op::And, &[0, 0], Operand::Reg(0)));
        }
        self.pending = Some(name);
    }
    fn fresh(&mut self, prefix: &str) -> String {
        self.n_label += 1;
        format!("{prefix}{}", self.n_label)
    }
    fn emit(&mut self, s: Stmt) {
        if self.brk {
            self.lines.push(Line { label: None, body: Body::Break });
            self.brk = false;
        }
        let label = self.pending.take().map(|n| (n, self.lines.len() % 2 == 0));
        self.lines.push(Line { label, body: Body::Stmt(s) });
    }
}

fn lbl(s: &str) -> Operand {
    Operand::Label(s.to_string())
}
fn imm(v: i32) -> Operand {
    Operand::Lit(Lit::Dec(v))
}

/// Emit the ops of one routine. `level` = 0 for main, k+1 for sub k; calls go to deeper subs only.
fn emit_ops(b: &mut B, ops: &[PgOp], spec: &ProgSpec, level: usize, nsubs: usize, selfmods: &mut Vec<(String, u16)>) {
    let counters = [5u8, 6, 4];
    let mut open: Vec<(String, u8)> = Vec::new(); // (loop label, counter reg)
    let mut skips: Vec<(String, u8)> = Vec::new(); // (label, remaining ops)
    for op in ops {
        match op {
            PgOp::Alu(k, d, s, t, i) => match k % 6 {
                0 => b.emit(Stmt::new(Op::Add, &[*d & 3, *s & 3], Operand::Reg(*t & 3))),
                1 | 2 => b.emit(Stmt::new(Op::Add, &[*d & 3, *s & 3], imm(*i as i32))),
                3 => b.emit(Stmt::new(Op::And, &[*d & 3, *s & 3], Operand::Reg(*t & 3))),
                4 => b.emit(Stmt::new(Op::And, &[*d & 3, *s & 3], imm(*i as i32))),
                _ => b.emit(Stmt::new(Op::Not, &[*d & 3, *s & 3], Operand::None)),
            },
            PgOp::Mem(k, r, slot, off) => {
                let r = *r & 3;
                let d = format!("D{}", slot & 7);
                let p = format!("P{}", slot & 3);
                match k % 7 {
                    0 => b.emit(Stmt::new(Op::Ld, &[r], lbl(&d))),
                    1 => b.emit(Stmt::new(Op::St, &[r], lbl(&d))),
                    2 => b.emit(Stmt::new(Op::Ldi, &[r], lbl(&p))),
                    3 => b.emit(Stmt::new(Op::Sti, &[r], lbl(&p))),
                    4 => {
                        // lea + ldr with an offset that stays inside D0..D7
                        let base = (r + 1) & 3;
                        b.emit(Stmt::new(Op::Lea, &[base], lbl("D0")));
                        b.emit(Stmt::new(Op::Ldr, &[r, base], imm((off & 7) as i32)));
                    }
                    5 => {
                        let base = (r + 1) & 3;
                        b.emit(Stmt::new(Op::Lea, &[base], lbl("D7")));
                        b.emit(Stmt::new(Op::Str, &[r, base], imm(-((off & 7) as i32))));
                    }
                    _ => b.emit(Stmt::new(Op::Lea, &[r], lbl(&d))),
                }
            }
            PgOp::Out(k, slot) => match k % 5 {
                0 => {
                    b.emit(Stmt::new(Op::Ld, &[0], lbl(&format!("V{}", slot & 3))));
                    b.emit(Stmt::simple(Op::Out));
                }
                1 => {
                    b.emit(Stmt::new(Op::Lea, &[0], lbl(&format!("S{}", slot % 3))));
                    b.emit(Stmt::simple(Op::Puts));
                }
                2 => {
                    b.emit(Stmt::new(Op::Lea, &[0], lbl(&format!("Q{}", slot & 1))));
                    b.emit(Stmt::simple(Op::Putsp));
                }
                3 => {
                    b.emit(Stmt::new(Op::Ld, &[0], lbl(&format!("D{}", slot & 7))));
                    b.emit(Stmt::simple(Op::Putn));
                }
                _ => b.emit(Stmt::simple(Op::Reg)),
            },
            PgOp::In(echo) => b.emit(Stmt::simple(if *echo { Op::In } else { Op::Getc })),
            PgOp::InShow(echo) => {
                b.emit(Stmt::simple(if *echo { Op::In } else { Op::Getc }));
                b.emit(Stmt::simple(Op::Putn));
            }
            PgOp::LoopBegin(n) => {
                if open.len() < 3 {
                    let c = counters[open.len()];
                    b.emit(Stmt::new(Op::And, &[c, c], imm(0)));
                    b.emit(Stmt::new(Op::Add, &[c, c], imm((*n).clamp(1, 4) as i32)));
                    let l = b.fresh("LP");
                    b.label(l.clone());
                    // make sure the label has a statement even if the body is empty
                    b.emit(Stmt::new(Op::Add, &[0, 0], imm(0)));
                    open.push((l, c));
                }
            }
            PgOp::LoopEnd => {
                if let Some((l, c)) = open.pop() {
                    b.emit(Stmt::new(Op::Add, &[c, c], imm(-1)));
                    b.emit(Stmt::new(Op::Br(1, true), &[], lbl(&l)));
                }
            }
            PgOp::Skip(f, n) => {
                let l = b.fresh("SK");
                b.emit(Stmt::new(Op::Br((*f).clamp(1, 7), true), &[], lbl(&l)));
                skips.push((l, *n + 1));
            }
            PgOp::Call(k) => {
                let k = *k as usize;
                if k < nsubs && k + 1 > level {
                    let target = format!("SUB{k}");
                    if spec.sub_call.get(k).copied().unwrap_or(false) && spec.stack {
                        b.emit(Stmt::new(Op::Call, &[], lbl(&target)));
                    } else if k % 2 == 1 {
                        b.emit(Stmt::new(Op::Lea, &[3], lbl(&target)));
                        b.emit(Stmt::new(Op::Jsrr, &[3], Operand::None));
                    } else {
                        b.emit(Stmt::new(Op::Jsr, &[], lbl(&target)));
                    }
                } else if k == 2 && spec.recursion > 0 && spec.stack && level == 0 {
                    b.emit(Stmt::new(Op::Call, &[], lbl("REC")));
                }
            }
            PgOp::SelfMod(d, s, i) => {
                // word to store: add rd, rs, #i
                let word = 0x1000 | ((*d as u16 & 3) << 9) | ((*s as u16 & 3) << 6) | 0x20 | (*i as u16 & 0x1F);
                let slot = b.fresh("SM");
                let src = format!("N{slot}");
                selfmods.push((src.clone(), word));
                b.emit(Stmt::new(Op::Ld, &[0], lbl(&src)));
                b.emit(Stmt::new(Op::St, &[0], lbl(&slot)));
                b.emit(Stmt::new(Op::Not, &[1, 1], Operand::None));
                b.label(slot);
                b.emit(Stmt::new(Op::And, &[2, 2], imm(0))); // placeholder, overwritten above
            }
            PgOp::SynthD(k) => {
                if level == 0 {
                    let half = 0x6A00u16 | (*k as u16 & 0x1F);
                    let slot = b.fresh("SD");
                    let src = format!("N{slot}");
                    selfmods.push((src.clone(), half));
                    b.emit(Stmt::new(Op::Ld, &[0], lbl(&src)));
                    b.emit(Stmt::new(Op::Add, &[0, 0], Operand::Reg(0)));
                    b.emit(Stmt::new(Op::St, &[0], lbl(&slot)));
                    b.label(slot);
                    b.emit(Stmt::new(Op::And, &[2, 2], imm(0))); // placeholder, overwritten above
                    b.emit(Stmt::new(Op::Add, &[7, 7], imm(1)));
                }
            }
            PgOp::PushPop(x, y) => {
                if spec.stack {
                    b.emit(Stmt::new(Op::Push, &[*x & 3], Operand::None));
                    b.emit(Stmt::new(Op::Add, &[*x & 3, *x & 3], imm(1)));
                    b.emit(Stmt::new(Op::Pop, &[*y & 3], Operand::None));
                }
            }
            PgOp::Break => b.brk = true,
            PgOp::WrapStr(packed) => {
                // only when the program itself does not live at the very bottom of memory
                if spec.fit >= 4 || origin_for(spec) >= 0x10 {
                    for k in 0..4 {
                        b.emit(Stmt::new(Op::Ld, &[0], lbl(&format!("V{}", k % 3))));
                        b.emit(Stmt::new(Op::Sti, &[0], lbl(&format!("PW{k}"))));
                    }
                    b.emit(Stmt::new(Op::Ld, &[0], lbl("PW0")));
                    b.emit(Stmt::simple(if *packed { Op::Putsp } else { Op::Puts }));
                }
            }
            PgOp::GetPc(k) => {
                // only where R7 is free: main, or a subroutine in the JSR convention (which has saved R7)
                let r7_free = level == 0 || !(spec.sub_call.get(level - 1).copied().unwrap_or(false) && spec.stack);
                let l = b.fresh("GP");
                match k % 3 {
                    0 if r7_free => {
                        b.emit(Stmt::new(Op::Jsr, &[], lbl(&l)));
                        b.label(l);
                        b.emit(Stmt::new(Op::Add, &[3, 7], imm(0)));
                    }
                    1 if r7_free => {
                        b.emit(Stmt::new(Op::Lea, &[3], lbl(&l)));
                        b.emit(Stmt::new(Op::Jsrr, &[3], Operand::None));
                        b.label(l);
                        b.emit(Stmt::new(Op::Add, &[3, 7], imm(0)));
                    }
                    2 if spec.stack && !r7_free || (spec.stack && level == 0) => {
                        b.emit(Stmt::new(Op::Call, &[], lbl(&l)));
                        b.label(l);
                        b.emit(Stmt::new(Op::Pop, &[3], Operand::None));
                    }
                    _ => {}
                }
            }
        }
        // close skips whose span is over
        let mut k = 0;
        while k < skips.len() {
            skips[k].1 -= 1;
            if skips[k].1 == 0 {
                let (l, _) = skips.remove(k);
                b.label(l);
                b.emit(Stmt::new(Op::Add, &[0, 0], imm(0)));
            } else {
                k += 1;
            }
        }
    }
    for (l, _) in skips {
        b.label(l);
        b.emit(Stmt::new(Op::Add, &[0, 0], imm(0)));
    }
    while let Some((l, c)) = open.pop() {
        b.emit(Stmt::new(Op::Add, &[c, c], imm(-1)));
        b.emit(Stmt::new(Op::Br(1, true), &[], lbl(&l)));
    }
}

pub fn origin_for(spec: &ProgSpec) -> u16 {
    match spec.orig_sel {
        0 | 1 => 0x3000,
        2 => 0x0000,
        3 => 0x7FF0,
        4 => 0x8000,
        5 => 0xFC00,
        6 => 0x0200,
        7 => 0x7F80,
        // only used by hand-made specs: a program that straddles the end of user space
        200 => 0xFDF8,
        _ => spec.orig_val % 0xFC00,
    }
}

/// Build the program. Layout: [.orig] main, ending, data, subroutines (or, for `RunOff`, data and
/// subroutines first behind a jump, main last).
pub fn build(spec: &ProgSpec) -> Built {
    let nominal = origin_for(spec);
    match spec.fit {
        4 | 5 => {
            // the number of words does not depend on the origin: lay out once to learn it
            let n = words_of(&build_at(spec, 0x3000, true).program);
            let end: usize = if spec.fit == 4 { 0xFDFF } else { 0xFE00 };
            if n == 0 || n > end {
                return build_at(spec, nominal, false);
            }
            build_at(spec, (end - n) as u16, true)
        }
        1..=3 => {
            let mut b = build_at(spec, nominal, false);
            let n = words_of(&b.program);
            let end: usize = [0xFFFF, 0xFFFE, 0xFE00][spec.fit as usize - 1];
            let running_off = spec.raw_words.is_none() && spec.ending == Ending::RunOff;
            if !running_off && nominal as usize + n < end {
                // (a program that runs off its end would walk through the padding)
                let mut pad = end - nominal as usize - n;
                // the padding ends with a string that the program prints first (fit 1, 2)
                const TAIL: &str = "TAIL!";
                let with_tail = spec.raw_words.is_none() && spec.fit != 3 && pad > TAIL.len() + 1;
                if with_tail {
                    pad -= TAIL.len() + 1;
                }
                // (hex: lace warns about decimal counts above 32767, on the same stream as program output)
                b.program.lines.push(Line::stmt(None, Stmt::new(Op::Blkw, &[], Operand::Lit(Lit::Hex(pad as u16, 0)))));
                if with_tail {
                    let at = (nominal as usize + n + pad) as u16;
                    b.program.lines.push(Line::stmt(Some("TAILS"), Stmt::new(Op::Stringz, &[], Operand::Str(TAIL.into()))));
                    for l in &mut b.program.lines {
                        if matches!(&l.label, Some((name, _)) if name == "PTAIL") {
                            if let Body::Stmt(s) = &mut l.body {
                                s.operand = Operand::Lit(Lit::Hex(at, 0));
                            }
                        }
                    }
                }
            }
            b
        }
        _ => build_at(spec, nominal, false),
    }
}

/// Evidence class of a spec whose image end is forced (see `ProgSpec::fit`).
pub fn fit_label(spec: &ProgSpec) -> Option<&'static str> {
    match spec.fit {
        1 => Some("image-ends-at-xFFFF"),
        2 => Some("image-ends-at-xFFFE"),
        3 => Some("image-padded-to-xFE00"),
        4 => Some("sentinel-on-last-user-word"),
        5 => Some("last-statement-on-last-user-word"),
        _ => None,
    }
}

fn words_of(p: &Program) -> usize {
    p.lines.iter().map(|l| if let Body::Stmt(s) = &l.body { s.size().unwrap_or(0) } else { 0 }).sum()
}

fn build_at(spec: &ProgSpec, orig: u16, force_orig_line: bool) -> Built {
    let orig_line = spec.orig_sel != 0 || force_orig_line;
    if let Some(words) = &spec.raw_words {
        let mut lines = Vec::new();
        if orig_line {
            lines.push(Line { label: None, body: Body::Orig(Lit::Hex(orig, (spec.orig_sel & 3) as u8)) });
        }
        for (i, w) in words.iter().enumerate() {
            let label = if i == 0 { Some(("MAIN".to_string(), false)) } else if i % 4 == 2 { Some((format!("W{i}"), i % 8 == 2)) } else { None };
            lines.push(Line { label, body: Body::Stmt(Stmt::new(Op::Fill, &[], Operand::Lit(Lit::Hex(*w, 0)))) });
        }
        if words.is_empty() {
            lines.push(Line::stmt(Some("MAIN"), Stmt::simple(Op::Halt)));
        }
        return Built { program: Program { lines }, orig, stack: spec.stack, breaks: vec![] };
    }
    let mut ending = spec.ending;
    if ending == Ending::BelowOrigin && orig == 0 {
        ending = Ending::Halt;
    }
    let nsubs = spec.subs.len().min(3);
    let tail_reader = matches!(spec.fit, 1 | 2) && ending != Ending::RunOff;
    let mut b = B { lines: Vec::new(), pending: None, n_label: 0, brk: false };
    // `.orig` need not be the first line: one program in eight writes a `.break` above it (which
    // marks the first statement, at the origin declared below)
    if orig_line && spec.fit == 0 && (spec.orig_val >> 12) & 7 == 5 {
        b.lines.push(Line { label: None, body: Body::Break });
    }
    if orig_line {
        b.lines.push(Line { label: None, body: Body::Orig(Lit::Hex(orig, (spec.orig_sel & 3) as u8)) });
    }
    let mut selfmods: Vec<(String, u16)> = Vec::new();

    let emit_main = |b: &mut B, selfmods: &mut Vec<(String, u16)>| {
        b.label("MAIN".into());
        if tail_reader {
            // print the string that the image-fit padding ends with (see `build`): the words at the
            // very top of the image must have been loaded
            b.emit(Stmt::new(Op::Ld, &[0], lbl("PTAIL")));
            b.emit(Stmt::simple(Op::Puts));
        }
        if spec.spin > 0 {
            b.emit(Stmt::new(Op::Ld, &[5], lbl("SPINC")));
            b.label("SPINL".into());
            b.emit(Stmt::new(Op::Add, &[5, 5], imm(-1)));
            b.emit(Stmt::new(Op::Br(5, true), &[], lbl("SPINL")));
        }
        // (R0 is 0 at load: one program in four does without the clearing instruction, so that
        // the first operation of the program - a call, say - is the first instruction)
        if tail_reader || spec.spin > 0 || (spec.orig_val >> 5) & 3 != 2 {
            b.emit(Stmt::new(Op::And, &[0, 0], imm(0)));
        }
        emit_ops(b, &spec.main, spec, 0, nsubs, selfmods);
        match ending {
            Ending::Halt => b.emit(Stmt::simple(Op::Halt)),
            Ending::RunOff => {}
            Ending::JmpFfff => {
                b.emit(Stmt::new(Op::Ld, &[0], lbl("TGT")));
                b.emit(Stmt::new(Op::Jmp, &[0], Operand::None));
            }
            Ending::BelowOrigin | Ending::AboveUser => {
                b.emit(Stmt::new(Op::Ld, &[2], lbl("TGT")));
                b.emit(Stmt::new(Op::Jmp, &[2], Operand::None));
            }
            Ending::UnknownTrap => b.emit(Stmt::new(Op::Trap, &[], Operand::Lit(Lit::Hex(0x30 + (spec.orig_val & 0xF), 0)))),
            Ending::RawD => b.emit(Stmt::new(Op::Fill, &[], Operand::Lit(Lit::Hex(0xD000 | (spec.orig_val & 0x0FFF), 0)))),
            Ending::HaltMiddle => {
                b.emit(Stmt::simple(Op::Halt));
                b.emit(Stmt::new(Op::Add, &[1, 1], imm(1)));
                b.emit(Stmt::simple(Op::Out));
                b.emit(Stmt::simple(Op::Halt));
            }
        }
    };
    let emit_data = |b: &mut B, selfmods: &Vec<(String, u16)>| {
        for k in 0..8 {
            b.label(format!("D{k}"));
            b.emit(Stmt::new(Op::Fill, &[], Operand::Lit(Lit::Hex(spec.data[k % spec.data.len()], 0))));
        }
        // labels that differ from others only in letter case (label names are case-sensitive)
        for (name, k) in [("d0", 2usize), ("d3", 5), ("v1", 6), ("Main", 7)] {
            b.label(name.to_string());
            b.emit(Stmt::new(Op::Fill, &[], Operand::Lit(Lit::Hex(spec.data[k % spec.data.len()] ^ 0x0F0F, 0))));
        }
        for k in 0..4 {
            // pointers: patched after layout (P0,P1 -> data slots; P2,P3 -> outside the program)
            b.label(format!("P{k}"));
            b.emit(Stmt::new(Op::Fill, &[], Operand::Lit(Lit::Hex(0, 0))));
        }
        for k in 0..4 {
            b.label(format!("V{k}"));
            let v = spec.data[(k + 3) % spec.data.len()];
            // mostly printable characters, sometimes arbitrary words (only bits 7:0 are printed)
            let v = if k < 3 { 0x20 + (v % 0x5F) } else { v };
            b.emit(Stmt::new(Op::Fill, &[], Operand::Lit(Lit::Hex(v, 0))));
        }
        for k in 0..3 {
            b.label(format!("S{k}"));
            b.emit(Stmt::new(Op::Stringz, &[], Operand::Str(spec.strings[k % spec.strings.len()].clone())));
        }
        for k in 0..2 {
            // packed strings: two characters per word, low byte first, then the x0000 terminator
            let text: Vec<u16> = spec.strings[(k + 1) % spec.strings.len()].chars().map(|c| (c as u32 & 0xFF) as u16).filter(|c| *c != 0).collect();
            let mut first = true;
            for pair in text.chunks(2) {
                if first {
                    b.label(format!("Q{k}"));
                    first = false;
                }
                let w = pair[0] | pair.get(1).copied().unwrap_or(0) << 8;
                b.emit(Stmt::new(Op::Fill, &[], Operand::Lit(Lit::Hex(w, 0))));
            }
            if first {
                b.label(format!("Q{k}"));
            }
            b.emit(Stmt::new(Op::Fill, &[], Operand::Lit(Lit::Hex(0, 0))));
        }
        for (k, a) in [0xFFFEu16, 0xFFFF, 0x0000, 0x0001].iter().enumerate() {
            b.label(format!("PW{k}"));
            b.emit(Stmt::new(Op::Fill, &[], Operand::Lit(Lit::Hex(*a, 0))));
        }
        if spec.spin > 0 {
            b.label("SPINC".into());
            b.emit(Stmt::new(Op::Fill, &[], Operand::Lit(Lit::Hex([0x7FFFu16, 0x8000, 0xFFFF, 0x0000][(spec.spin as usize - 1) % 4], 0))));
        }
        if tail_reader {
            b.label("PTAIL".into());
            b.emit(Stmt::new(Op::Fill, &[], Operand::Lit(Lit::Hex(0, 0))));
        }
        b.label("TGT".into());
        let tgt = match ending {
            Ending::BelowOrigin => orig.wrapping_sub(1 + (spec.orig_val % 3)).min(orig.saturating_sub(1)),
            Ending::AboveUser => 0xFE00 + (spec.orig_val % 0x1FF),
            _ => 0xFFFF,
        };
        b.emit(Stmt::new(Op::Fill, &[], Operand::Lit(Lit::Hex(tgt, 0))));
        b.label("CNT".into());
        b.emit(Stmt::new(Op::Fill, &[], Operand::Lit(Lit::Dec(spec.recursion as i32))));
        for k in 0..nsubs {
            b.label(format!("SAVE{k}"));
            b.emit(Stmt::new(Op::Fill, &[], Operand::Lit(Lit::Dec(0))));
        }
        for (name, word) in selfmods {
            b.label(name.clone());
            b.emit(Stmt::new(Op::Fill, &[], Operand::Lit(Lit::Hex(*word, 0))));
        }
    };
    let emit_subs = |b: &mut B, selfmods: &mut Vec<(String, u16)>| {
        for k in 0..nsubs {
            let call_conv = spec.sub_call.get(k).copied().unwrap_or(false) && spec.stack;
            b.label(format!("SUB{k}"));
            if call_conv {
                b.emit(Stmt::new(Op::Add, &[0, 0], imm(0)));
            } else {
                b.emit(Stmt::new(Op::St, &[7], lbl(&format!("SAVE{k}"))));
            }
            emit_ops(b, &spec.subs[k], spec, k + 1, nsubs, selfmods);
            if call_conv {
                b.emit(Stmt::simple(Op::Rets));
            } else {
                b.emit(Stmt::new(Op::Ld, &[7], lbl(&format!("SAVE{k}"))));
                b.emit(Stmt::simple(Op::Ret));
            }
        }
        if spec.recursion > 0 && spec.stack {
            b.label("REC".into());
            b.emit(Stmt::new(Op::Ld, &[1], lbl("CNT")));
            b.emit(Stmt::new(Op::Add, &[1, 1], imm(-1)));
            b.emit(Stmt::new(Op::St, &[1], lbl("CNT")));
            b.emit(Stmt::new(Op::Br(6, true), &[], lbl("RECEND")));
            b.emit(Stmt::new(Op::Call, &[], lbl("REC")));
            b.label("RECEND".into());
            b.emit(Stmt::simple(Op::Rets));
        }
    };

    if ending == Ending::RunOff {
        b.emit(Stmt::new(Op::Br(7, false), &[], lbl("MAIN")));
        // subs first so that their self-mod sources are known before the data is laid out
        let mut sm_subs = Vec::new();
        emit_subs(&mut b, &mut sm_subs);
        // main's self-mod sources are not known yet: lay main out into a scratch builder first
        let mut scratch = B { lines: Vec::new(), pending: None, n_label: b.n_label, brk: false };
        let mut sm_main = Vec::new();
        emit_main(&mut scratch, &mut sm_main);
        let mut all = sm_subs.clone();
        all.extend(sm_main.clone());
        emit_data(&mut b, &all);
        if b.pending.is_some() {
            b.emit(Stmt::new(Op::Fill, &[], Operand::Lit(Lit::Dec(0))));
        }
        b.lines.extend(scratch.lines);
        b.pending = scratch.pending;
        if b.pending.is_some() {
            b.emit(Stmt::new(Op::Add, &[0, 0], imm(0)));
        }
    } else {
        emit_main(&mut b, &mut selfmods);
        let mut scratch = B { lines: Vec::new(), pending: None, n_label: b.n_label, brk: false };
        let mut sm_subs = Vec::new();
        emit_subs(&mut scratch, &mut sm_subs);
        let mut all = selfmods.clone();
        all.extend(sm_subs);
        emit_data(&mut b, &all);
        if b.pending.is_some() {
            b.emit(Stmt::new(Op::Fill, &[], Operand::Lit(Lit::Dec(0))));
        }
        b.lines.extend(scratch.lines);
        b.pending = scratch.pending;
        if b.pending.is_some() {
            b.emit(Stmt::simple(Op::Halt));
        }
    }
    let mut program = Program { lines: b.lines };
    // one program in eight ends with a labelled `.break` that nothing follows: the label and the
    // breakpoint belong to the address right after the last statement (where the loader puts the
    // implicit HALT)
    // (also when the image is padded to end at 0xFFFF: label and breakpoint then sit on the last
    // address there is)
    if (spec.fit == 0 && (spec.orig_val >> 9) & 7 == 3 || spec.fit == 1 && (spec.orig_val >> 9) & 1 == 1) && spec.raw_words.is_none() {
        program.lines.push(Line { label: Some(("TAILBK".to_string(), spec.orig_val & 1 == 1)), body: Body::Break });
    }

    // Patch pointers now that the layout is known.
    let mut idx = 0usize;
    let mut at: std::collections::BTreeMap<String, usize> = Default::default();
    let mut breaks = Vec::new();
    for l in &program.lines {
        if let Some((n, _)) = &l.label {
            at.insert(n.clone(), idx);
        }
        match &l.body {
            Body::Stmt(s) => idx += s.size().unwrap_or(0),
            Body::Break => breaks.push(idx as u16),
            _ => {}
        }
    }
    let total = idx as u16;
    let outside = |sel: u16| -> u16 {
        // an address outside [orig, orig+total]: below the origin, the stack area, the very top
        let cands = [orig.wrapping_sub(1), orig.wrapping_sub(7), 0x0000, 0xFDF0, 0xFDFF, 0xFFFF, 0xFE00, orig.wrapping_add(total).wrapping_add(9)];
        for d in 0..cands.len() {
            let c = cands[(sel as usize + d) % cands.len()];
            if c < orig || c > orig.wrapping_add(total) {
                return c;
            }
        }
        0xFFFF
    };
    for l in &mut program.lines {
        let Some((n, _)) = &l.label else { continue };
        let v = match n.as_str() {
            "P0" => orig.wrapping_add(at["D1"] as u16),
            "P1" => orig.wrapping_add(at["D6"] as u16),
            "P2" => outside(spec.orig_val),
            "P3" => outside(spec.orig_val >> 3),
            // (re-pointed at the tail string by `build` when there is room for one)
            "PTAIL" => orig.wrapping_add(at["S0"] as u16),
            _ => continue,
        };
        if let Body::Stmt(s) = &mut l.body {
            s.operand = Operand::Lit(Lit::Hex(v, 0));
        }
    }
    Built { program, orig, stack: spec.stack, breaks }
}
