//! C01 — Assembled image is the ISA encoding of the source.
//! Constructive generator + independent encoder; metamorphic relation over layouts.

use proptest::prelude::*;
use serde::{Deserialize, Serialize};
use serde_json::Value;

use crate::engine::*;
use crate::gen::*;
use crate::lacebox::{self, AsmResult};
use crate::refasm::*;

pub struct C01;

#[derive(Clone, Debug, Serialize, Deserialize)]
pub struct Case {
    pub program: Program,
    pub stack: bool,
    pub layouts: Vec<Layout>,
    /// Some((n, m, origin)): the program is `bulk_program(n, m, origin)` (kept out of the saved
    /// case: tens of thousands of lines)
    #[serde(default)]
    pub bulk: Option<(u32, u32, u8)>,
}

/// A program near the capacity of the address space that is made of statements, not of one
/// directive: `n` register / immediate instructions, a labelled block of `m` words, a data word,
/// a load of it and a HALT (`origin`: 0 none, 1 `.orig x0`, 2 `.orig x3000`).
pub fn bulk_program(n: u32, m: u32, origin: u8) -> Program {
    let mut lines = Vec::with_capacity(n as usize + 8);
    match origin % 3 {
        1 => lines.push(Line { label: None, body: Body::Orig(Lit::Hex(0, 0)) }),
        2 => lines.push(Line { label: None, body: Body::Orig(Lit::Hex(0x3000, 0)) }),
        _ => {}
    }
    lines.push(Line::stmt(Some("start"), Stmt::new(Op::Add, &[0, 0], Operand::Lit(Lit::Dec(1)))));
    for i in 0..n {
        let (a, b, c) = ((i % 8) as u8, (i / 8 % 8) as u8, (i / 64 % 8) as u8);
        lines.push(Line::stmt(
            None,
            match i % 4 {
                0 => Stmt::new(Op::Add, &[a, b], Operand::Lit(Lit::Dec((i % 32) as i32 - 16))),
                1 => Stmt::new(Op::And, &[a, b], Operand::Reg(c)),
                2 => Stmt::new(Op::Not, &[a, b], Operand::None),
                _ => Stmt::new(Op::Ldr, &[a, b], Operand::Lit(Lit::Dec((i % 64) as i32 - 32))),
            },
        ));
    }
    lines.push(Line::stmt(Some("pad"), Stmt::new(Op::Blkw, &[], Operand::Lit(Lit::Hex(m as u16, 0)))));
    lines.push(Line::stmt(Some("after"), Stmt::new(Op::Fill, &[], Operand::Lit(Lit::Hex(0xBEEF, 0)))));
    lines.push(Line::stmt(Some("tail"), Stmt::new(Op::Ld, &[1], Operand::Label("after".into()))));
    lines.push(Line::stmt(None, Stmt::simple(Op::Halt)));
    Program { lines }
}

/// The (instructions, block, origin) grid of the bulk programs: statement counts from none to
/// 65,000, the block sized so that the whole has 65,535 words minus a small slack.
pub fn bulk_grid(thorough: bool) -> Vec<(u32, u32, u8)> {
    let ns: &[u32] = if thorough { &[0, 100, 5000, 10_000, 16_384, 20_000, 22_000, 25_000, 30_000, 32_768, 40_000, 50_000, 60_000, 65_000, 65_500] } else { &[0, 5000, 16_384, 22_000, 32_768, 43_000, 60_000, 65_500] };
    let slacks: &[u32] = if thorough { &[0, 1, 2, 17, 1000, 20_000] } else { &[0, 1, 30] };
    let mut out = Vec::new();
    for (i, n) in ns.iter().enumerate() {
        for (j, slack) in slacks.iter().enumerate() {
            // start + n + pad(m) + after + tail + halt = n + m + 4 words
            let m = 65_535u32.saturating_sub(n + 4 + slack);
            out.push((*n, m, ((i + j) % 3) as u8));
        }
    }
    out
}

fn nontrivial(p: &Program, img: &RefImage) -> bool {
    let mut back = false;
    let mut fwd = false;
    let mut neg = false;
    let mut nlabels = 0;
    let mut word = 0usize;
    for l in &p.lines {
        if l.label.is_some() {
            nlabels += 1;
        }
        if let Body::Stmt(s) = &l.body {
            match &s.operand {
                Operand::Label(n) => {
                    if let Some((_, t)) = img.labels.iter().find(|(x, _)| x == n) {
                        if *t <= word {
                            back = true;
                        } else {
                            fwd = true;
                        }
                    }
                }
                Operand::Lit(lit) if lit.written() < 0 && !matches!(s.op, Op::Fill) => neg = true,
                _ => {}
            }
            word += s.size().unwrap_or(0);
        }
    }
    (back && fwd) || neg || (img.orig.is_some() && img.orig != Some(0x3000)) || nlabels >= 2
}

fn op_name(p: &Program, img: &RefImage, word: usize) -> String {
    img.word_line
        .get(word)
        .and_then(|li| match &p.lines[*li].body {
            Body::Stmt(s) => Some(s.op.mnemonic()),
            _ => None,
        })
        .unwrap_or_else(|| "?".into())
}

pub fn judge_case(c: &Case) -> Obs {
    if let Some((n, m, origin)) = c.bulk {
        let full = Case { program: bulk_program(n, m, origin), stack: c.stack, layouts: c.layouts.clone(), bulk: None };
        let mut o = judge_case(&full);
        o.key = hash_of(&("bulk", n, m, origin, c.stack));
        let clip = |t: &str| if t.len() > 1500 { format!("{} ...\n[{} statements, then `pad .blkw x{m:X}`, `after .fill xBEEF`, `tail ld r1 after`, `halt`]", t.chars().take(600).collect::<String>(), n) } else { t.to_string() };
        o.show = o.show.map(|t| clip(&t));
        if let Some((sig, msg)) = o.fail.take() {
            o.fail = Some((sig, clip(&msg)));
        }
        o.label("statement-heavy-program-near-capacity");
        return o;
    }
    let mut obs = Obs::default();
    let img = match judge(&c.program, c.stack) {
        Verdict::Accept(img) => img,
        // generator produced something outside the acceptance predicate: not asserted here
        Verdict::Reject(why) | Verdict::Unspecified(why) | Verdict::Either(_, why) => {
            obs.excluded = Some(why);
            return obs;
        }
    };
    obs.nontrivial = nontrivial(&c.program, &img);
    obs.key = hash_of(&(&c.program, &c.layouts, c.stack));
    if img.orig.is_some() && img.orig != Some(0x3000) {
        obs.label("non-default-origin");
    }
    if c.stack {
        obs.label("stack-feature-on");
    }
    let mut first: Option<lacebox::Image> = None;
    for lay in &c.layouts {
        let r = render(&c.program, *lay);
        if obs.show.is_none() {
            obs.show = Some(r.text.clone());
        }
        match lay.style {
            0 => obs.label("layout-canonical"),
            1 => obs.label("layout-varied"),
            2 => obs.label("layout-comments"),
            _ => obs.label("layout-statements-across-lines"),
        }
        match lacebox::assemble(&r.text, c.stack) {
            AsmResult::Ok(got) => {
                if got.orig != img.orig {
                    obs.set_fail("C01:orig-mismatch", format!("origin {:?}, expected {:?}\n{}", got.orig, img.orig, r.text));
                    return obs;
                }
                if got.words.len() != img.words.len() {
                    obs.set_fail(
                        "C01:length-mismatch",
                        format!("{} words, expected {}\n{}", got.words.len(), img.words.len(), r.text),
                    );
                    return obs;
                }
                for (i, (g, e)) in got.words.iter().zip(&img.words).enumerate() {
                    if g != e {
                        let op = op_name(&c.program, &img, i);
                        obs.set_fail(
                            format!("C01:word-mismatch:{op}"),
                            format!("word {i} ({op}) is x{g:04X}, ISA encoding is x{e:04X}\n{}", r.text),
                        );
                        return obs;
                    }
                }
                if let Some(f) = &first {
                    if f.words != got.words || f.orig != got.orig {
                        obs.set_fail("C01:layout-divergence", format!("layouts give different images\n{}", r.text));
                        return obs;
                    }
                } else {
                    first = Some(got);
                }
            }
            AsmResult::Err { rendered, phase, .. } => {
                obs.set_fail(
                    format!("C01:rejected:{phase}"),
                    format!("valid program rejected in {phase}:\n{}\n--- source ---\n{}", first_lines(&rendered, 6), r.text),
                );
                return obs;
            }
            AsmResult::Panic { msg, loc, phase } => {
                obs.set_fail(
                    format!("C01:{}", panic_sig(&msg, &loc)),
                    format!("panic in {phase}: {msg} at {loc}\n--- source ---\n{}", r.text),
                );
                return obs;
            }
        }
    }
    obs
}

pub fn first_lines(s: &str, n: usize) -> String {
    s.lines().take(n).collect::<Vec<_>>().join("\n")
}
/// Root-cause signature of a panic: its site; for sites outside lace (std, dependencies) the
/// message is part of the signature, because one site there serves many causes.
pub fn panic_sig(msg: &str, loc: &str) -> String {
    let site = short_loc(loc);
    if loc.contains("/.cargo/registry/") || loc.contains("/rustc/") || loc.contains("/library/") {
        let slug: String = msg
            .chars()
            .take(48)
            .map(|c| if c.is_ascii_alphanumeric() { c.to_ascii_lowercase() } else { '-' })
            .collect();
        format!("panic@{site}:{}", slug.trim_matches('-'))
    } else {
        format!("panic@{site}")
    }
}
pub fn short_loc(loc: &str) -> String {
    loc.rsplit("/src/").next().unwrap_or(loc).to_string()
}

fn case_strategy(max_lines: usize, nlayouts: usize) -> impl Strategy<Value = Case> {
    (raw_program(max_lines), prop::collection::vec(layout(), nlayouts)).prop_map(|(raw, layouts)| Case {
        bulk: None,
        program: build_program(&raw),
        stack: raw.stack,
        layouts,
    })
}

/// Deterministic sweep: every value of imm5 / offset6 / trap vector / PC offset and every register
/// combination, for every instruction form, as single-statement programs.
fn sweep(ctx: &Ctx, rep: &mut Report) {
    let n = std::cell::Cell::new(0u64);
    let emit = |stmt: Stmt, stack: bool, rep: &mut Report| {
        n.set(n.get() + 1);
        let n = n.get();
        if !ctx.mine(n) {
            return;
        }
        let lay = Layout { seed: n, style: (n % 3) as u8, end: n % 5 == 0 };
        let case = Case { program: Program { lines: vec![Line { label: None, body: Body::Stmt(stmt) }] }, stack, layouts: vec![lay], bulk: None };
        judge_one(ctx, rep, &case, &mut |c| {
            let mut o = judge_case(c);
            o.label("sweep");
            o
        });
    };
    let sp = |v: i32, k: u64| spell(v, (k.wrapping_mul(2654435761) >> 7) as u8);
    for op in [Op::Add, Op::And] {
        for a in 0..8u8 {
            for b in 0..8u8 {
                for c in 0..8u8 {
                    emit(Stmt::new(op, &[a, b], Operand::Reg(c)), false, rep);
                }
            }
            for imm in -16..=15 {
                emit(Stmt::new(op, &[a, (a * 3 + 1) & 7], Operand::Lit(sp(imm, n.get()))), false, rep);
            }
        }
    }
    for a in 0..8u8 {
        for b in 0..8u8 {
            emit(Stmt::new(Op::Not, &[a, b], Operand::None), false, rep);
        }
        emit(Stmt::new(Op::Jmp, &[a], Operand::None), false, rep);
        emit(Stmt::new(Op::Jsrr, &[a], Operand::None), false, rep);
        emit(Stmt::new(Op::Push, &[a], Operand::None), true, rep);
        emit(Stmt::new(Op::Pop, &[a], Operand::None), true, rep);
    }
    for op in [Op::Ldr, Op::Str] {
        for off in -32..=31 {
            for a in 0..8u8 {
                emit(Stmt::new(op, &[a, a.wrapping_add(off as u8) & 7], Operand::Lit(sp(off, n.get()))), false, rep);
            }
        }
    }
    for f in 1..=7u8 {
        for off in -256..=255 {
            emit(Stmt::new(Op::Br(f, off % 2 == 0), &[], Operand::Lit(sp(off, n.get()))), false, rep);
        }
    }
    for op in [Op::Ld, Op::Ldi, Op::Lea, Op::St, Op::Sti] {
        for off in -256..=255 {
            emit(Stmt::new(op, &[(off & 7) as u8], Operand::Lit(sp(off, n.get()))), false, rep);
        }
    }
    for off in -1024..=1023 {
        emit(Stmt::new(Op::Jsr, &[], Operand::Lit(sp(off, n.get()))), false, rep);
    }
    for v in 0..=255 {
        emit(Stmt::new(Op::Trap, &[], Operand::Lit(sp(v, n.get()))), false, rep);
    }
    for op in [Op::Ret, Op::Rti, Op::Getc, Op::Out, Op::Puts, Op::In, Op::Putsp, Op::Halt, Op::Putn, Op::Reg] {
        emit(Stmt::simple(op), false, rep);
    }
    emit(Stmt::simple(Op::Rets), true, rep);
    rep.exhaustive.push("single-statement programs: every register combination and every in-range literal value of every instruction form".into());
}

/// Single tokens whose source text is longer than 65,535 bytes while the image still fits: string
/// literals made of two-byte escapes / multi-byte characters, and a very long label name.
fn long_tokens(ctx: &Ctx, rep: &mut Report) {
    let mut n = 0u64;
    let mut cases: Vec<Program> = Vec::new();
    for (ch, counts) in [('\t', vec![32_766usize, 32_767, 32_768, 33_000]), ('é', vec![32_767, 32_768, 40_000]), ('日', vec![21_845, 21_846, 30_000]), ('a', vec![40_000])] {
        for count in counts {
            let text: String = std::iter::repeat(ch).take(count).collect();
            cases.push(Program {
                lines: vec![
                    Line::stmt(Some("start"), Stmt::new(Op::Lea, &[0], Operand::Label("text".into()))),
                    Line::stmt(None, Stmt::simple(Op::Puts)),
                    Line::stmt(Some("text"), Stmt::new(Op::Stringz, &[], Operand::Str(text))),
                    Line::stmt(Some("after"), Stmt::new(Op::Fill, &[], Operand::Lit(Lit::Hex(0xBEEF, 0)))),
                    Line::stmt(None, Stmt::new(Op::Ld, &[1], Operand::Label("after".into()))),
                ],
            });
        }
    }
    let long_name: String = std::iter::repeat('q').take(70_000).collect();
    cases.push(Program {
        lines: vec![
            Line::stmt(Some(&long_name), Stmt::new(Op::Add, &[1, 1], Operand::Lit(Lit::Dec(1)))),
            Line::stmt(None, Stmt::new(Op::Br(7, false), &[], Operand::Label(long_name.clone()))),
            Line::stmt(None, Stmt::simple(Op::Halt)),
        ],
    });
    for program in cases {
        n += 1;
        if !ctx.mine(n) {
            continue;
        }
        let case = Case { program, stack: false, layouts: vec![Layout { seed: n, style: (n % 3) as u8, end: n % 2 == 0 }], bulk: None };
        judge_one(ctx, rep, &case, &mut |c| {
            let mut o = judge_case(c);
            o.label("token-longer-than-65535-bytes");
            o
        });
    }
    rep.exhaustive.push("single tokens around and beyond 65,535 source bytes: .stringz of 32,766..40,000 two-byte escapes / 2- and 3-byte characters, a 70,000-character label".into());
}

impl Prop for C01 {
    fn id(&self) -> &'static str {
        "C01"
    }
    fn rule(&self) -> &'static str {
        "Programs are built inside the acceptance predicate from a constructive AST generator (all instruction, trap and directive forms; \
         boundary ∪ uniform literals in every spelling; label operands before/after/on the statement; origins incl. none/0/0x7FFF/0x8000/0xFDFF) \
         and rendered under 2-3 independent layouts; plus a deterministic sweep of every register combination and every in-range literal of \
         every instruction form; plus single tokens longer than 65,535 source bytes (.stringz of two-byte escapes and multi-byte characters, a 70,000-character label). Oracle: RefAsm's ISA encoder computed from the AST + all layouts give the same image. \
         Non-trivial: a backward AND a forward label reference, or a negative imm5/offset6/PC offset, or a non-default origin, or >= 2 labels. \
         Distinct = hash of (AST, layouts, feature flag)."
    }
    fn assumptions(&self) -> Vec<String> {
        vec![
            "RefAsm (AST renderer + ISA encoder) is correct; it is written from the ISA tables and README, not from lace".into(),
            "Not generated (statement silent): unknown string escapes, non-BMP characters in .stringz, negative .blkw, decimal literals 32768..65535 in signed fields, comments abutting a token, two statements on one physical line".into(),
            "features are initialised once per thread; each assembly runs on a fresh thread".into(),
        ]
    }
    fn run_worker(&self, ctx: &Ctx, rep: &mut Report) {
        sweep(ctx, rep);
        long_tokens(ctx, rep);
        let grid = bulk_grid(ctx.tier.pick(false, true));
        for (i, b) in grid.iter().enumerate() {
            if !ctx.mine(i as u64 + 1) {
                continue;
            }
            let case = Case { program: Program { lines: vec![] }, stack: i % 2 == 1, layouts: vec![Layout { seed: i as u64, style: (i % 3) as u8, end: i % 2 == 0 }], bulk: Some(*b) };
            judge_one(ctx, rep, &case, &mut |c| judge_case(c));
        }
        rep.exhaustive.push(format!("{} statement-heavy programs near the capacity of the address space (0..65,500 instructions followed by a block that brings the total to 65,535 words minus a small slack)", grid.len()));
        let n = ctx.share(ctx.tier.pick(40_000, 400_000));
        let nl = ctx.tier.pick(2, 3);
        drive(ctx, rep, "programs", case_strategy(25, nl), n, &mut |c: &Case| judge_case(c));
        let big = ctx.share(ctx.tier.pick(400, 4_000));
        drive(ctx, rep, "long-programs", case_strategy(400, 1), big, &mut |c: &Case| {
            let mut o = judge_case(c);
            o.label("long-program");
            o
        });
    }
    fn fuzz_strategy(&self) -> Option<BoxedStrategy<Value>> {
        Some(crate::fuzzmode::jv(case_strategy(25, 2)))
    }
    fn replay(&self, _ctx: &Ctx, case: &Value) -> Obs {
        match serde_json::from_value::<Case>(case.clone()) {
            Ok(c) => judge_case(&c),
            Err(e) => Obs::fail("C01:bad-replay-file", format!("cannot parse case: {e}")),
        }
    }
}
