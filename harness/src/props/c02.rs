//! C02 — Every instruction word executes as the ISA prescribes.
//! Word axis enumerated exhaustively (minus RTI), state axis generated; oracle = RefVM.step,
//! compared on all registers, PC, CC, all 65,536 memory words, output, input consumed, stop.

use proptest::prelude::*;
use serde::{Deserialize, Serialize};
use serde_json::Value;

use crate::engine::*;
use crate::lacebox::{self, Machine, Stop};
use crate::refvm::{self, decode_out, match_out, Event, Io, Vm};

pub struct C02;

#[derive(Clone, Debug, Serialize, Deserialize)]
pub struct Case {
    pub word: u16,
    pub stack_on: bool,
    pub regs: [u16; 8],
    /// PC as the instruction sees it (already incremented)
    pub pc: u16,
    pub cc: u8,
    /// sparse memory over a zero background
    pub mem: Vec<(u16, u16)>,
    pub input: Vec<u8>,
}

#[derive(Clone, Debug, Serialize, Deserialize)]
pub struct RawState {
    pub regs: [(u8, u16); 8],
    pub pc: (u8, u16),
    pub cc: u8,
    pub fill: Vec<u16>,
    pub ptr: (u8, u16),
    pub input: Vec<u8>,
    pub quirk: u8,
}

const BOUNDARY: [u16; 10] = [0, 1, 0x7FFF, 0x8000, 0xFFFF, 0x3000, 0xFDFF, 0xFE00, 0xFFFE, 2];

fn pick16(sel: u8, val: u16) -> u16 {
    if (sel as usize) < BOUNDARY.len() {
        BOUNDARY[sel as usize]
    } else {
        val
    }
}

pub fn raw_state() -> impl Strategy<Value = RawState> {
    (
        prop::array::uniform8((0u8..20, any::<u16>())),
        (0u8..14, any::<u16>()),
        0u8..4,
        prop::collection::vec(any::<u16>(), 24),
        (0u8..20, any::<u16>()),
        prop::collection::vec(crate::pick![4 => 0x20u8..0x7F, 1 => any::<u8>()], 0..3),
        any::<u8>(),
    )
        .prop_map(|(regs, pc, cc, fill, ptr, input, quirk)| RawState { regs, pc, cc, fill, ptr, input, quirk })
}

/// Build the machine state for `word` from raw values: boundary ∪ uniform registers, forced
/// coincidences, memory windows around everything the instruction can touch.
pub fn build_case(word: u16, stack_on: bool, raw: &RawState) -> Case {
    let mut regs = [0u16; 8];
    for i in 0..8 {
        regs[i] = pick16(raw.regs[i].0, raw.regs[i].1);
    }
    // PC (incremented value) in (orig, 0xFE00], edges forced
    let pc = match raw.pc.0 {
        0 => 0x3001,
        1 => 0xFE00,
        2 => 0xFDFF,
        3 => 0x0001,
        4 => 0x8000,
        5 => 0x7FFF,
        6 => 0x00FF,
        7 => 0x0100,
        _ => 1 + raw.pc.1 % 0xFE00,
    };
    let cc = [0b100, 0b010, 0b001, 0b000][raw.cc as usize & 3];
    let op = word >> 12;
    // forced coincidences
    if op == 0xD && raw.quirk & 3 == 0 {
        regs[7] = [0, 0xFFFF, 1, 0xFDFF][(raw.quirk >> 2) as usize & 3];
    }
    if op == 0xF && matches!(word & 0xFF, 0x22 | 0x24) && raw.quirk & 1 == 0 {
        // string near the top of memory
        regs[0] = 0xFFFF - (raw.quirk >> 4) as u16 % 6;
    }
    let mut mem: Vec<(u16, u16)> = Vec::new();
    let mut k = 0usize;
    let mut fill = |mem: &mut Vec<(u16, u16)>, centre: u16, span: i32| {
        for d in -span..=span {
            let a = centre.wrapping_add(d as u16);
            let v = raw.fill[k % raw.fill.len()];
            k += 1;
            mem.push((a, v));
        }
    };
    let sx = refvm::sx;
    fill(&mut mem, pc, 1);
    match op {
        0x2 | 0x3 | 0xE => fill(&mut mem, pc.wrapping_add(sx(9, word)), 1),
        0xA | 0xB => {
            let pa = pc.wrapping_add(sx(9, word));
            fill(&mut mem, pa, 1);
            let p = pick16(raw.ptr.0, raw.ptr.1);
            fill(&mut mem, p, 1);
            mem.push((pa, p)); // later entries win
        }
        0x6 | 0x7 => {
            let base = regs[((word >> 6) & 7) as usize];
            fill(&mut mem, base.wrapping_add(sx(6, word)), 1);
        }
        0xD => fill(&mut mem, regs[7], 2),
        0xF => {
            let v = word & 0xFF;
            if v == 0x22 || v == 0x24 {
                // a string at R0: mostly well-formed, sometimes raw words
                let len = (raw.quirk >> 5) as u16;
                let mut a = regs[0];
                for i in 0..len {
                    let f = raw.fill[(i as usize) % raw.fill.len()];
                    let w = if raw.quirk & 2 == 0 {
                        let lo = 0x20 + (f & 0x3F);
                        let hi = if v == 0x24 { 0x20 + ((f >> 8) & 0x5F) } else { 0 };
                        if v == 0x24 && i + 1 == len && f & 0x4000 != 0 { lo } else { lo | hi << 8 }
                    } else {
                        f
                    };
                    mem.push((a, w));
                    a = a.wrapping_add(1);
                }
                mem.push((a, 0));
                if raw.quirk & 2 != 0 || raw.quirk & 8 == 0 {
                    mem.push((a.wrapping_add(1), if raw.quirk & 16 == 0 { 0 } else { raw.fill[5] }));
                }
            }
        }
        _ => {}
    }
    for r in regs {
        if raw.quirk & 0x40 != 0 {
            fill(&mut mem, r, 0);
        }
    }
    // later entries win: dedupe keeping the last value for an address
    let mut seen = std::collections::BTreeMap::new();
    for (a, v) in mem {
        seen.insert(a, v);
    }
    Case { word, stack_on, regs, pc, cc, mem: seen.into_iter().collect(), input: raw.input.clone() }
}

/// Per-thread evaluation context: one lace machine and one RefVM with a shared zero background.
pub struct Bench {
    pub m: Machine,
    pub vm: Vm,
}

impl Bench {
    pub fn new(stack_on: bool) -> Self {
        Bench { m: Machine::new(), vm: Vm::blank(0x3000, stack_on) }
    }

    fn wipe(&mut self) {
        self.vm.mem.iter_mut().for_each(|w| *w = 0);
        self.m.env.verif_mem_mut().iter_mut().for_each(|w| *w = 0);
    }

    pub fn judge(&mut self, c: &Case) -> Obs {
        let mut obs = Obs::default();
        obs.key = hash_of(&(c.word, c.regs, c.pc, c.cc, &c.mem, &c.input, c.stack_on));
        debug_assert_eq!(self.vm.stack_on, c.stack_on);
        let word = c.word;
        let is_trap = word >> 12 == 0xF;
        // set up both machines
        for (a, v) in &c.mem {
            self.vm.mem[*a as usize] = *v;
            self.m.env.verif_mem_mut()[*a as usize] = *v;
        }
        self.vm.r = c.regs;
        self.vm.pc = c.pc;
        self.vm.cc = c.cc;
        self.vm.last_write = None;
        self.m.env.verif_set_regs(c.regs);
        self.m.env.verif_set_pc(c.pc);
        self.m.env.verif_set_cc(c.cc);
        let is_reg_trap = is_trap && word & 0xFF == 0x27;
        lace::set_minimal(is_reg_trap);

        let before = (c.regs, c.pc, c.cc);
        let mut io = Io::new(&c.input);
        let ev = self.vm.step(word, &mut io);
        let ex = self.m.exec(word, if is_trap { Some(&c.input) } else { None });
        lace::set_minimal(false);

        let show = || {
            format!(
                "word x{:04X} stack={} regs={:04X?} pc=x{:04X} cc={:03b} mem={:04X?} input={:?}",
                word, c.stack_on, c.regs, c.pc, c.cc, c.mem, c.input
            )
        };
        obs.show = Some(show());
        let opname = OPNAMES[(word >> 12) as usize];
        obs.label(opname);

        // panic in lace: always a violation
        if let Stop::Panic(msg, loc) = &ex.stop {
            obs.set_fail(format!("C02:{}", super::c01::panic_sig(msg, loc)), format!("panic executing {opname}: {msg} at {loc}\n{}", show()));
            self.wipe();
            return obs;
        }
        let mut skip_r0 = false;
        match &ev {
            Event::Rti => unreachable!("RTI words are not generated"),
            Event::Exit(code) => {
                obs.label("expect-error-exit");
                if ex.stop != Stop::Exit(*code) {
                    obs.set_fail(
                        format!("C02:wrong-stop:{opname}"),
                        format!("expected the machine to stop with exit status {code:#x} without executing, got {:?}\n{}", ex.stop, show()),
                    );
                }
            }
            Event::Unspecified("input-eof") => {
                obs.excluded = Some("input exhausted (outcome unspecified)");
                self.cleanup(c);
                return obs;
            }
            Event::Unspecified("non-ascii-input") => {
                skip_r0 = true;
                obs.label("non-ascii-input");
                if ex.stop != Stop::Returned {
                    obs.set_fail(format!("C02:wrong-stop:{opname}"), format!("expected normal execution, got {:?}\n{}", ex.stop, show()));
                }
            }
            Event::Unspecified(kind) => {
                obs.excluded = Some(kind);
                // ... but never a panic (handled above) and nothing but output may differ
                self.wipe();
                return obs;
            }
            Event::Done | Event::Halt => {
                if ex.stop != Stop::Returned {
                    obs.set_fail(format!("C02:wrong-stop:{opname}"), format!("expected normal execution, got {:?}\n{}", ex.stop, show()));
                }
            }
        }
        // compare state (with the accepted alternative for JSRR R7 / PUSH R7)
        let lregs = self.m.env.verif_regs();
        let lpc = self.m.env.verif_pc();
        let lcc = self.m.env.verif_cc();
        let same = |vm: &Vm, m: &Machine| -> Option<String> {
            for i in 0..8 {
                if skip_r0 && i == 0 {
                    continue;
                }
                if vm.r[i] != lregs[i] {
                    return Some(format!("R{i} is x{:04X}, ISA gives x{:04X}", lregs[i], vm.r[i]));
                }
            }
            if vm.pc != lpc {
                return Some(format!("PC is x{lpc:04X}, ISA gives x{:04X}", vm.pc));
            }
            if vm.cc != lcc {
                return Some(format!("CC is {lcc:03b}, ISA gives {:03b}", vm.cc));
            }
            if vm.mem[..] != m.env.verif_mem()[..] {
                let a = (0..0x10000).find(|a| vm.mem[*a] != m.env.verif_mem()[*a]).unwrap();
                return Some(format!("memory[x{a:04X}] is x{:04X}, ISA gives x{:04X}", m.env.verif_mem()[a], vm.mem[a]));
            }
            None
        };
        let mut mismatch = same(&self.vm, &self.m);
        if mismatch.is_some() {
            // rebuild the before-state sparsely for the alternative reading
            let mut b = self.vm.clone();
            b.r = before.0;
            b.pc = before.1;
            b.cc = before.2;
            if let Some(alt) = refvm::alternative(&b, &self.vm, word) {
                if same(&alt, &self.m).is_none() {
                    mismatch = None;
                    obs.label("accepted-alternative-reading");
                }
            }
        }
        let dirty = mismatch.is_some();
        if let Some(m) = mismatch {
            obs.set_fail(format!("C02:wrong-state:{opname}"), format!("{m}\n{}", show()));
        }
        // output and input
        if is_trap && obs.fail.is_none() {
            let actual = decode_out(&ex.stdout); // NO_COLOR is set: nothing to strip, and the program may print ESC itself
            if let Err(at) = match_out(&io.out, &actual) {
                obs.set_fail(
                    format!("C02:wrong-output:trap-x{:02x}", word & 0xFF),
                    format!(
                        "output differs at character {at}: got {:?}, expected {:?}\n{}",
                        String::from_utf8_lossy(&ex.stdout),
                        refvm::out_to_string(&io.out),
                        show()
                    ),
                );
            }
            let consumed = c.input.len() - ex.input_left.min(c.input.len());
            if consumed != io.pos {
                obs.set_fail(
                    format!("C02:wrong-input-consumption:trap-x{:02x}", word & 0xFF),
                    format!("consumed {consumed} input bytes, expected {}\n{}", io.pos, show()),
                );
            }
        }
        // non-triviality: the step does something and the state is not blank
        let changed = self.vm.r != before.0
            || self.vm.last_write.is_some()
            || self.vm.pc != before.1
            || self.vm.cc != before.2
            || !io.out.is_empty()
            || io.pos > 0
            || matches!(ev, Event::Exit(_));
        obs.nontrivial = changed && c.regs.iter().any(|r| *r != 0);
        if self.vm.last_write.is_some() {
            obs.label("writes-memory");
        }
        if dirty {
            self.wipe();
        } else {
            self.cleanup(c);
        }
        obs
    }

    fn cleanup(&mut self, c: &Case) {
        for (a, _) in &c.mem {
            self.vm.mem[*a as usize] = 0;
            self.m.env.verif_mem_mut()[*a as usize] = 0;
        }
        if let Some(a) = self.vm.last_write {
            self.vm.mem[a as usize] = 0;
            self.m.env.verif_mem_mut()[a as usize] = 0;
        }
    }
}

const OPNAMES: [&str; 16] = ["br", "add", "ld", "st", "jsr", "and", "ldr", "str", "rti", "not", "ldi", "sti", "jmp", "stack", "lea", "trap"];

fn worker_half(ctx: Ctx, stack_on: bool, states_per_word: u32) -> Report {
    let label = if stack_on { "stack-on" } else { "stack-off" };
    let r = lacebox::fresh_thread(move || {
        lacebox::init_features(stack_on);
        let mut rep = Report::default();
        let mut bench = Bench::new(stack_on);
        let mut d = Driver::new(&ctx, label);
        let mut n = 0u64;
        for word in 0..=0xFFFFu16 {
            if word >> 12 == 0x8 {
                continue; // RTI: outside the claim
            }
            n += 1;
            if !ctx.mine(n) {
                continue;
            }
            // with the flag off, every 0xD word behaves alike: fewer states there; with the flag on,
            // the non-stack opcodes were already covered by the other half: fewer states there
            let k = match (stack_on, word >> 12 == 0xD) {
                (false, true) => 1,
                (false, false) => states_per_word,
                (true, true) => states_per_word * 2,
                (true, false) => (states_per_word / 3).max(1),
            };
            // the eight implemented trap routines are few words with rich behaviour: more states
            let k = if word >> 12 == 0xF && (0x20..=0x27).contains(&(word & 0xFF)) { k * 12 } else { k };
            let strat = raw_state().prop_map(move |raw| build_case(word, stack_on, &raw));
            for _ in 0..k {
                d.one(&ctx, &mut rep, &strat, &mut |c: &Case| bench.judge(c));
            }
            if d.stopped {
                break;
            }
        }
        rep.class_n("rti-words-excluded", 0);
        rep
    });
    r.unwrap_or_else(|msg| {
        let mut rep = Report::default();
        rep.inconclusive.push(format!("C02 worker thread died: {msg}"));
        rep
    })
}

impl Prop for C02 {
    fn id(&self) -> &'static str {
        "C02"
    }
    fn rule(&self) -> &'static str {
        "Every instruction word 0x0000..=0xFFFF except the 4,096 RTI encodings (outside the claim) is executed from several generated machine states per word, under both feature settings: registers from {0,1,2,0x7FFF,0x8000,0xFFFE,0xFFFF,origin,0xFDFF,0xFE00} ∪ uniform, \
         forced coincidences (R7 = 0/0xFFFF for stack words, strings at the top of memory for PUTS/PUTSP), PC at user-space edges ∪ uniform, CC in {N,Z,P,none}, random memory in windows around PC, PC+sext(field), base+offset, the pointer read by LDI/STI and its target, the stack pointer; input bytes for GETC/IN. \
         Oracle: RefVM.step — all 8 registers, PC, CC, all 65,536 memory words, characters printed, input bytes consumed, stop status (unknown trap => exit 0xEE, opcode 0xD with the flag off => exit 1, nothing changed). \
         Non-trivial: the instruction changes a register, memory, PC, CC, prints, reads or stops the machine, and some register is non-zero. Distinct = hash(word, registers, PC, CC, memory, input, flag). The word axis is exhaustive; the state axis is sampled."
    }
    fn assumptions(&self) -> Vec<String> {
        vec![
            "RefVM (DESIGN.md Appendix A) is the reading of the ISA; LEA sets the condition codes (pinned by tests/expected/check_every_command)".into(),
            "JSRR R7 may jump to the old or the new R7 (ISA editions differ); PUSH R7 may store the value before or after the decrement: both accepted".into(),
            "not asserted (unspecified): GETC/IN at end of input, the value R0 gets for a non-ASCII input byte, IN's prompt, PUTS/PUTSP over words with a zero low byte or an odd word that is not last".into(),
            "the instruction is executed through hook H1 (RunState::execute) with PC already incremented, as the run loop does".into(),
        ]
    }
    fn run_worker(&self, ctx: &Ctx, rep: &mut Report) {
        let k = ctx.tier.pick(8, 96);
        let a = worker_half(ctx.clone(), false, k);
        let b = worker_half(ctx.clone(), true, k);
        rep.merge(a);
        rep.merge(b);
        rep.exhaustive.push("instruction words: all 61,440 non-RTI encodings, under both feature settings".into());
        if ctx.worker == 0 {
            rep.class_n("rti-words-excluded", 4096);
        }
    }
    fn fuzz_strategy(&self) -> Option<BoxedStrategy<Value>> {
        Some(crate::fuzzmode::jv((any::<u16>(), any::<bool>(), raw_state()).prop_map(|(w, s, raw)| build_case(if w >> 12 == 8 { w ^ 0x1000 } else { w }, s, &raw))))
    }
    fn replay(&self, _ctx: &Ctx, case: &Value) -> Obs {
        match serde_json::from_value::<Case>(case.clone()) {
            Ok(c) => {
                let r = lacebox::fresh_thread(move || {
                    lacebox::init_features(c.stack_on);
                    let mut bench = Bench::new(c.stack_on);
                    bench.judge(&c)
                });
                r.unwrap_or_else(|m| Obs::fail("C02:thread-died", m))
            }
            Err(e) => Obs::fail("C02:bad-replay-file", format!("cannot parse case: {e}")),
        }
    }
}
