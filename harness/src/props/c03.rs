//! C03 — Running an image follows the machine model from load to stop.
//! Model-based differential runs: structured terminating programs (assembled by lace and,
//! alternatively, encoded by RefAsm and loaded raw) and arbitrary word images, against RefVM.

use proptest::prelude::*;
use serde::{Deserialize, Serialize};
use serde_json::Value;

use crate::engine::*;
use crate::lacebox::{self, Load, RunSpec, Session, Snapshot, Stop};
use crate::proggen::{self, ProgSpec};
use crate::refasm::{self, Layout, Verdict};
use crate::refvm::{self, decode_out, match_out, RunStop, Vm};

pub struct C03;

#[derive(Clone, Debug, Serialize, Deserialize)]
pub enum Case {
    Structured { spec: ProgSpec, input: Vec<u8>, layout: Layout, via_source: bool },
    Image { orig: u16, words: Vec<u16>, input: Vec<u8>, stack: bool },
    /// the real binary with a pseudo-terminal as standard input: `keys` are typed one at a time
    /// while the program waits for a key (the interactive path of GETC / IN). `mode` (absent = 0):
    /// 0 stdin terminal, stdout pipe; 1 both the terminal; 2 stdin a pipe holding the keys' bytes,
    /// stdout the terminal, with decoy keys typed into the terminal that nothing may read
    Terminal {
        spec: ProgSpec,
        keys: Vec<char>,
        layout: Layout,
        #[serde(default)]
        mode: u8,
    },
}

pub fn input_bytes() -> impl Strategy<Value = Vec<u8>> {
    let plain = || prop::collection::vec(crate::pick![6 => 0x20u8..0x7F, 1 => Just(b'\n'), 1 => Just(0u8), 2 => 0x80u8..=0xFF, 1 => any::<u8>()], 0..6);
    // a fifth of the streams begin with (or contain) a sequence that tools tend to treat specially
    // - a byte order mark, an escape introducer, CR LF, an end-of-input control: each of its bytes
    // is one read like any other
    let sig = || prop::sample::select(crate::gen::STREAM_SIGNATURES.to_vec()).prop_map(|s| s.to_vec());
    crate::pick![
        8 => plain(),
        2 => (sig(), plain()).prop_map(|(s, p)| [s, p].concat()),
        1 => (plain(), sig(), plain()).prop_map(|(a, s, b)| [a, s, b].concat()),
    ]
}

/// What the reference run and the image look like for a case.
pub struct Prepared {
    pub orig: u16,
    pub words: Vec<u16>,
    pub stack: bool,
    pub input: Vec<u8>,
    pub source: Option<String>,
}

pub fn prepare(c: &Case) -> Result<Prepared, &'static str> {
    match c {
        Case::Structured { spec, input, layout, via_source } => {
            let built = proggen::build(spec);
            let img = match refasm::judge(&built.program, built.stack) {
                Verdict::Accept(img) => img,
                Verdict::Reject(why) | Verdict::Unspecified(why) | Verdict::Either(_, why) => return Err(why),
            };
            if built.orig as usize + img.words.len() + 1 > 0x10000 {
                return Err("image does not fit");
            }
            let source = if *via_source { Some(refasm::render(&built.program, *layout).text) } else { None };
            Ok(Prepared { orig: img.orig.unwrap_or(0x3000), words: img.words, stack: built.stack, input: input.clone(), source })
        }
        Case::Terminal { .. } => Err("terminal case (judged separately)"),
        Case::Image { orig, words, input, stack } => {
            if *orig as usize + words.len() + 1 > 0x10000 {
                return Err("image does not fit");
            }
            Ok(Prepared { orig: *orig, words: words.clone(), stack: *stack, input: input.clone(), source: None })
        }
    }
}

pub fn snap_diff(l: &Snapshot, vm: &Vm) -> Option<String> {
    for i in 0..8 {
        if l.regs[i] != vm.r[i] {
            return Some(format!("R{i} is x{:04X}, reference x{:04X}", l.regs[i], vm.r[i]));
        }
    }
    if l.pc != vm.pc {
        return Some(format!("PC is x{:04X}, reference x{:04X}", l.pc, vm.pc));
    }
    if l.cc != vm.cc {
        return Some(format!("CC is {:03b}, reference {:03b}", l.cc, vm.cc));
    }
    if l.mem[..] != vm.mem[..] {
        let a = (0..0x10000).find(|a| l.mem[*a] != vm.mem[*a]).unwrap();
        return Some(format!("memory[x{a:04X}] is x{:04X}, reference x{:04X}", l.mem[a], vm.mem[a]));
    }
    None
}

/// GETC / IN fed from an interactive terminal: every key contributes its UTF-8 bytes, one byte per
/// trap (a non-ASCII byte reads as U+FFFD), and everything else is as in a piped run.
fn judge_terminal(spec: &ProgSpec, keys: &[char], layout: Layout, mode: u8) -> Obs {
    use crate::cli::{self, TempDir};
    let mut obs = Obs::default();
    obs.label("terminal-input");
    let built = proggen::build(spec);
    let img = match refasm::judge(&built.program, built.stack) {
        Verdict::Accept(img) => img,
        Verdict::Reject(why) | Verdict::Unspecified(why) | Verdict::Either(_, why) => {
            obs.excluded = Some(why);
            return obs;
        }
    };
    let orig = img.orig.unwrap_or(0x3000);
    if orig as usize + img.words.len() + 1 > 0x10000 {
        obs.excluded = Some("image does not fit");
        return obs;
    }
    let input: Vec<u8> = keys.iter().collect::<String>().into_bytes();
    let rr = refvm::run(Vm::load(orig, &img.words, built.stack), &input, 20_000, Some(0xFFFD));
    if !matches!(rr.stop, RunStop::Normal | RunStop::Exit(_)) {
        obs.excluded = Some("not a terminating, fully specified run (a terminal never reaches end of input)");
        return obs;
    }
    // the keys typed are exactly those whose bytes the run consumes: none may be left half-read
    let mut used = 0usize;
    let mut nkeys = 0usize;
    for k in keys {
        if used >= rr.consumed {
            break;
        }
        used += k.len_utf8();
        nkeys += 1;
    }
    if used != rr.consumed {
        obs.excluded = Some("the run ends in the middle of a multi-byte key");
        return obs;
    }
    if rr.executed_reg_trap && rr.printed_escape {
        obs.excluded = Some("REG and ESC in one run");
        return obs;
    }
    let text = refasm::render(&built.program, layout).text;
    let shown = format!("keys {:?} stack={}\n{text}", &keys[..nkeys], built.stack);
    obs.show = Some(shown.clone());
    obs.key = hash_of(&(&text, keys));
    obs.nontrivial = nkeys >= 2 && keys[..nkeys].iter().any(|k| k.len_utf8() > 1) && rr.consumed >= 3;
    if keys[..nkeys].iter().any(|k| k.len_utf8() > 1) {
        obs.label("terminal-multi-byte-key");
    }
    let dir = TempDir::new();
    dir.write("prog.asm", text.as_bytes());
    let mut args = vec!["run", "prog.asm"];
    if rr.executed_reg_trap {
        args.push("--minimal");
    }
    if built.stack {
        args.extend(["-f", "stack"]);
    }
    let typed: Vec<Vec<u8>> = keys[..nkeys].iter().map(|k| k.to_string().into_bytes()).collect();
    obs.label(["stdin-terminal-stdout-pipe", "stdin-and-stdout-terminal", "stdin-pipe-stdout-terminal-with-decoy-keys"][mode as usize % 3]);
    let piped: Vec<u8> = typed.concat();
    let decoys = b"QWERTYUIOP";
    let (run, ntyped) = match mode % 3 {
        0 => cli::lace_tty(&args, dir.path(), &typed, false, 30),
        1 => cli::lace_term(&args, dir.path(), &cli::TermOpts { keys: Some(&typed), piped_stdin: None, stdout_on_tty: true, decoys: &[], envs: &[] }, false, 30),
        _ => {
            // the program's input is the pipe; the keys waiting in the terminal are not for it
            // (a program that read them would print what it got from them: the comparison of the
            // output below decides; how many are left in the queue cannot be read reliably once the
            // session leader has exited and the terminal was hung up)
            let (run, _) = cli::lace_term(&args, dir.path(), &cli::TermOpts { keys: None, piped_stdin: Some(&piped), stdout_on_tty: true, decoys, envs: &[] }, false, 30);
            (run, nkeys)
        }
    };
    if run.timed_out {
        // waiting for a key that the reference says is never read, or a hang: not a verdict by itself
        if ntyped < nkeys {
            obs.excluded = Some("watchdog");
        } else {
            obs.set_fail("C03:terminal-run-waits-for-more-keys", format!("all {nkeys} keys the reference run reads were typed, yet the program still waits\n{}\n{shown}", run.brief()));
        }
        return obs;
    }
    if run.panicked() {
        obs.set_fail("C03:terminal-run-crashes", format!("{}\n{shown}", run.brief()));
        return obs;
    }
    if run.code != super::c06::expected_code(&rr.stop) {
        obs.set_fail("C03:terminal-run-wrong-exit-status", format!("exit {:?}, the reference machine gives {:?}\n{}\n{shown}", run.code, super::c06::expected_code(&rr.stop), run.brief()));
        return obs;
    }
    if ntyped != nkeys {
        obs.set_fail("C03:terminal-run-reads-fewer-keys", format!("the program ended after {ntyped} keys; the reference run reads {nkeys}\n{}\n{shown}", run.brief()));
        return obs;
    }
    let want = super::c06::expected_stdout("prog.asm", &rr);
    if let Err(at) = match_out(&want, &decode_out(&run.stdout)) {
        obs.set_fail(
            "C03:terminal-run-wrong-output",
            format!("output differs at character {at}: got {:?}, expected {:?}\n{shown}", String::from_utf8_lossy(&run.stdout), refvm::out_to_string(&want)),
        );
    }
    obs
}

pub fn judge_case(c: &Case, budget: u64) -> Obs {
    if let Case::Terminal { spec, keys, layout, mode } = c {
        return judge_terminal(spec, keys, *layout, *mode);
    }
    let mut obs = Obs::default();
    let budget = budget + if let Case::Structured { spec, .. } = c { proggen::extra_budget(spec) } else { 0 };
    let p = match prepare(c) {
        Ok(p) => p,
        Err(why) => {
            obs.excluded = Some(why);
            return obs;
        }
    };
    obs.key = hash_of(&(p.orig, &p.words, &p.input, p.stack));
    let shown = match &p.source {
        Some(s) => format!("input {:?} stack={}\n{s}", p.input, p.stack),
        None => format!("orig x{:04X} stack={} input {:?} words {:04X?}", p.orig, p.stack, p.input, p.words),
    };
    obs.show = Some(shown.clone());
    if let Case::Structured { spec, .. } = c {
        if let Some(l) = proggen::fit_label(spec) {
            obs.label(l);
        }
    }
    match c {
        Case::Structured { via_source: true, .. } => obs.label("structured-via-assembler"),
        Case::Structured { .. } => obs.label("structured-loaded-raw"),
        Case::Image { .. } => obs.label("arbitrary-image"),
        Case::Terminal { .. } => {}
    }
    let loaded_ref = Vm::load(p.orig, &p.words, p.stack);
    let mut rr = refvm::run(loaded_ref.clone(), &p.input, budget, Some(0xFFFD));
    if rr.stop == RunStop::Unspecified("rti") {
        obs.excluded = Some("reference run reaches RTI (outside the claim)");
        return obs;
    }
    let minimal = rr.executed_reg_trap;
    if minimal && rr.printed_escape {
        obs.excluded = Some("REG listing and ESC output in one run (minimal mode strips escapes)");
        return obs;
    }
    let load = match &p.source {
        Some(text) => Load::Source { text: text.clone(), debugger: None },
        None => {
            let mut raw = vec![p.orig];
            raw.extend(&p.words);
            Load::Raw(raw)
        }
    };
    let s: Session = lacebox::run_session(load, RunSpec { stack: p.stack, minimal, fuel: budget, input: p.input.clone() });
    let fail = |obs: &mut Obs, sig: &str, msg: String| obs.set_fail(format!("C03:{sig}"), format!("{msg}\n{shown}"));
    if let Some(asm) = &s.asm {
        if !asm.is_ok() {
            fail(&mut obs, "valid-program-rejected", format!("lace does not assemble the generated program: {asm:?}"));
            return obs;
        }
    }
    let Some(out) = &s.outcome else {
        fail(&mut obs, "load-failed", "loading returned an error".into());
        return obs;
    };
    if let Stop::Panic(msg, loc) = &out.stop {
        if matches!(rr.stop, RunStop::Unspecified(_)) && msg.contains("RTI") {
            obs.excluded = Some("reference run reaches RTI (outside the claim)");
            return obs;
        }
        fail(&mut obs, &super::c01::panic_sig(msg, loc), format!("panic: {msg} at {loc}"));
        return obs;
    }
    // load state
    match &s.loaded {
        Some(l) => {
            if let Some(d) = snap_diff(l, &loaded_ref) {
                fail(&mut obs, "wrong-load-state", format!("right after loading: {d}"));
                return obs;
            }
        }
        None => {
            fail(&mut obs, "load-failed", format!("the image was not loaded: {:?}", out.stop));
            return obs;
        }
    }
    // A run that read a non-ASCII byte: which value R0 gets is adopted from the implementation
    // (U+FFFD or the byte itself).
    let read_non_ascii = p.input.iter().take(rr.consumed).any(|b| *b >= 0x80);
    let mut attempts = vec![rr.clone()];
    if read_non_ascii {
        obs.label("reads-non-ascii-input");
        attempts.push(refvm::run(loaded_ref.clone(), &p.input, budget, None));
    }
    let mut last_err: Option<(String, String)> = None;
    for r in attempts {
        match compare(&r, out, &p, budget) {
            Ok(()) => {
                last_err = None;
                rr = r;
                break;
            }
            Err(e) => last_err = Some(e),
        }
    }
    if let Some((sig, msg)) = last_err {
        fail(&mut obs, &sig, msg);
    }
    match &rr.stop {
        RunStop::Normal => obs.label(if rr.halted_by_trap { "stop-halt" } else { "stop-pc-ffff" }),
        RunStop::Exit(0xEE) => obs.label("stop-exception"),
        RunStop::Exit(_) => obs.label("stop-stack-gate"),
        RunStop::OutOfFuel => obs.label("stop-out-of-fuel"),
        RunStop::Unspecified(k) => {
            obs.label("stop-unspecified");
            obs.excluded = Some(k);
        }
    }
    let f = &rr.features;
    for (on, l) in [
        (f.taken_backward_branch, "taken-backward-branch"),
        (f.subroutine_return, "subroutine-return"),
        (f.store_into_code_then_executed, "self-modified-code-executed"),
        (f.trap_output, "trap-output"),
        (f.input_read, "input-read"),
        (f.stack_op, "stack-instruction"),
    ] {
        if on {
            obs.label(l);
        }
    }
    let abnormal = !matches!(rr.stop, RunStop::Normal) || !rr.halted_by_trap;
    obs.nontrivial = rr.steps >= 20
        && (f.taken_backward_branch || f.subroutine_return || f.store_into_code_then_executed || f.trap_output || f.input_read || abnormal);
    obs
}

fn compare(rr: &refvm::RefRun, out: &lacebox::Outcome, p: &Prepared, budget: u64) -> Result<(), (String, String)> {
    let actual = decode_out(&out.stdout);
    let out_check = |exact: bool| -> Result<(), (String, String)> {
        match match_out(&rr.out, &actual) {
            Ok(()) => Ok(()),
            Err(at) if !exact && at >= actual.len() => Ok(()), // a prefix is fine
            Err(at) => Err((
                "wrong-output".into(),
                format!(
                    "program output differs at character {at}: got {:?}, reference {:?}",
                    String::from_utf8_lossy(&out.stdout),
                    refvm::out_to_string(&rr.out)
                ),
            )),
        }
    };
    match &rr.stop {
        RunStop::Unspecified("input-eof") => {
            // premature end of input: outcome unspecified, but it must be a clean stop
            if !matches!(out.stop, Stop::Exit(_) | Stop::Returned) {
                return Err(("unclean-stop-at-end-of-input".into(), format!("end of input reached; got {:?}", out.stop)));
            }
            return Ok(());
        }
        RunStop::Unspecified(_) => return Ok(()),
        RunStop::Normal => {
            if out.stop != Stop::Returned {
                return Err(("wrong-stop".into(), format!("reference run ends normally after {} instructions, lace: {:?}", rr.steps, out.stop)));
            }
        }
        RunStop::Exit(code) => {
            if out.stop != Stop::Exit(*code) {
                return Err(("wrong-stop".into(), format!("reference run stops with exit status {code:#x} after {} instructions, lace: {:?}", rr.steps, out.stop)));
            }
        }
        RunStop::OutOfFuel => {
            if out.stop != Stop::OutOfFuel {
                return Err(("wrong-stop".into(), format!("reference run is still going after {budget} instructions, lace: {:?} after {} instructions", out.stop, out.execs)));
            }
        }
    }
    // a refused word (unknown trap, stack gate) is dispatched once without executing anything
    let expected_execs = rr.steps + rr.refused_word as u64;
    if out.execs != expected_execs {
        return Err(("wrong-instruction-count".into(), format!("lace dispatched {} instructions, reference {}", out.execs, expected_execs)));
    }
    out_check(true)?;
    let consumed = p.input.len() - out.input_left.min(p.input.len());
    if consumed != rr.consumed {
        return Err(("wrong-input-consumption".into(), format!("lace consumed {consumed} input bytes, reference {}", rr.consumed)));
    }
    if let Some(fin) = &out.fin {
        if let Some(d) = snap_diff(fin, &rr.vm) {
            return Err(("wrong-final-state".into(), format!("after {} instructions: {d}", rr.steps)));
        }
    }
    Ok(())
}

pub fn image_words() -> impl Strategy<Value = Vec<u16>> {
    let word = crate::pick![
        3 => any::<u16>(),
        // opcode-weighted, never RTI
        6 => (prop::sample::select(vec![0u16, 1, 2, 3, 4, 5, 6, 7, 9, 10, 11, 12, 13, 14, 15]), any::<u16>()).prop_map(|(op, r)| op << 12 | (r & 0x0FFF)),
        // control flow / memory access near the PC
        4 => (prop::sample::select(vec![0u16, 2, 3, 4, 10, 11, 14]), 0u16..8, -6i16..6).prop_map(|(op, r, off)| op << 12 | r << 9 | (off as u16 & 0x1FF)),
        2 => (0x20u16..0x28).prop_map(|v| 0xF000 | v),
        1 => Just(0xF025u16),
        1 => Just(0xC1C0u16),
        // instructions whose encoding has unused bits, with those bits set at random: TRAP x20-x27
        // (bits 11:8), RET / JMP (11:9, 5:0), JSRR (10:9, 5:0), RETS (9:0), PUSH / POP (9, 5:0), NOT (5:0 are ones)
        3 => (
            prop::sample::select(vec![
                (0xF025u16, 0x0F00u16), (0xF025, 0x0F00), (0xF021, 0x0F00), (0xF022, 0x0F00), (0xF027, 0x0F00), (0xF020, 0x0F00),
                (0xC1C0, 0x0E3F), (0xC1C0, 0x0E3F), (0xC080, 0x0E3F), (0x4080, 0x063F), (0x41C0, 0x063F),
                (0xD800, 0x03FF), (0xD440, 0x023F), (0xD040, 0x023F),
            ]),
            any::<u16>()
        )
            .prop_map(|((base, mask), r)| base | (r & mask)),
    ];
    prop::collection::vec(word, 1..40)
}

pub fn image_origin() -> impl Strategy<Value = u16> {
    crate::pick![
        3 => Just(0x3000u16),
        1 => Just(0u16),
        1 => Just(0xFDFFu16),
        1 => Just(0xFDC0u16),
        1 => Just(0x7FF0u16),
        1 => Just(0x8000u16),
        3 => 0u16..=0xFDFF,
    ]
}

fn cases() -> impl Strategy<Value = Case> {
    crate::pick![
        5 => (proggen::with_spin(proggen::prog_spec(40)), input_bytes(), crate::gen::layout(), any::<bool>())
            .prop_map(|(spec, input, layout, via_source)| Case::Structured { spec, input, layout, via_source }),
        4 => (image_origin(), image_words(), input_bytes(), any::<bool>()).prop_map(|(orig, mut words, input, stack)| {
            let room = 0x10000usize - orig as usize - 1;
            words.truncate(room.max(0));
            Case::Image { orig, words, input, stack }
        }),
    ]
}

/// Programs that read several keys and show what they got, and the keys to type: printable ASCII
/// and 2-, 3- and 4-byte characters.
fn terminal_cases() -> impl Strategy<Value = Case> {
    let key = crate::pick![
        5 => (0x20u32..0x7F).prop_map(|c| char::from_u32(c).unwrap()),
        3 => prop::sample::select(vec!['é', 'ß', 'λ', '日', '€', '😀', '\u{7FF}', '\u{800}', '\u{FFFD}', '\u{10000}', '\u{FEFF}', '\u{FEFF}', '\u{FFFE}', '\u{85}']),
    ];
    (proggen::prog_spec(8), prop::collection::vec((any::<u16>(), any::<bool>()), 2..6), prop::collection::vec(key, 6..12), crate::gen::layout()).prop_map(|(mut spec, reads, keys, layout)| {
        // no other input traps (their position relative to the shown ones is immaterial here)
        spec.main.retain(|op| !matches!(op, proggen::PgOp::In(_)));
        for s in &mut spec.subs {
            s.retain(|op| !matches!(op, proggen::PgOp::In(_) | proggen::PgOp::InShow(_)));
        }
        for (at, echo) in reads {
            let i = (at as usize * (spec.main.len() + 1)) >> 16;
            spec.main.insert(i, proggen::PgOp::InShow(echo));
        }
        spec.fit = 0;
        let mode = (layout.seed % 3) as u8;
        Case::Terminal { spec, keys, layout, mode }
    })
}

impl Prop for C03 {
    fn id(&self) -> &'static str {
        "C03"
    }
    fn rule(&self) -> &'static str {
        "Cases: (a) ProgGen structured programs that terminate by construction (ALU/memory blocks, counted loops nested up to 3, forward skips, JSR/JSRR/RET and CALL/RETS subroutines incl. bounded recursion, self-modifying stores, OUT/PUTS/PUTSP/PUTN/REG/GETC/IN, endings: HALT, run off the end, computed jump to 0xFFFF / below the origin / >= 0xFE00, unknown trap, raw 0xD word, HALT in the middle), \
         run through lace's assembler or encoded by RefAsm and loaded raw; (b) arbitrary word images (uniform, opcode-weighted, near-PC control flow, traps) at origins 0..=0xFDFF (edges forced); input streams with ASCII, NUL, non-ASCII bytes and too few bytes, a fifth of them beginning with (or containing) a byte order mark, escape introducer, CR LF or end-of-input control; (c) the real binary with a pseudo-terminal as standard input (the interactive path of GETC / IN): programs that read 2-5 keys and print R0 after each, keys typed one at a time while the program waits - printable ASCII and 2-, 3- and 4-byte characters incl. U+FEFF (each byte of a key is one read, a non-ASCII byte reads as U+FFFD): exit status, output and the number of keys consumed against RefVM; in three arrangements of descriptors - terminal in / pipe out, terminal in and out, and pipe in (holding the keys' bytes) / terminal out with decoy keys waiting in the terminal, none of which may be read. \
         Oracle: RefVM — full snapshot right after load; stop reason and exit status; number of executed instructions; output character for character; input bytes consumed; full final snapshot (registers, PC, CC, 65,536 words); under a fuel of N loop iterations (out of fuel after exactly N instructions is a comparable outcome). \
         Non-trivial: >= 20 instructions executed and at least one of: taken backward branch, subroutine return, store into code that is later executed, trap output, input read, abnormal ending. Distinct = hash(origin, words, input, flag)."
    }
    fn assumptions(&self) -> Vec<String> {
        vec![
            "RefVM (DESIGN.md Appendix A) incl. the minimal-mode REG listing format pinned by the repository's tests; the HALT banner is '\\n      Halted\\n' (NO_COLOR is set for the workers)".into(),
            "unspecified and therefore not compared beyond the point where they occur: RTI, premature end of input (only 'stops cleanly' is asserted), PUTS/PUTSP over malformed strings; R0 after a non-ASCII input byte is adopted (U+FFFD or the byte)".into(),
            "runs with REG use minimal mode (the only pinned listing format) and are excluded if they also print ESC".into(),
            "non-termination is decided by deterministic fuel (hook H3), never by a timer".into(),
        ]
    }
    fn needs_cli(&self) -> bool {
        true
    }
    fn run_worker(&self, ctx: &Ctx, rep: &mut Report) {
        let budget = ctx.tier.pick(5_000, 50_000);
        let n = ctx.share(ctx.tier.pick(60_000, 600_000));
        drive(ctx, rep, "runs", cases(), n, &mut |c: &Case| judge_case(c, budget));
        // the interactive input path: the real binary on a pseudo-terminal
        std::env::set_var("VERIF_MAX_SHRINK", "40");
        let n = ctx.share(ctx.tier.pick(1600, 20_000));
        drive(ctx, rep, "terminal-input", terminal_cases(), n, &mut |c: &Case| judge_case(c, budget));
        std::env::remove_var("VERIF_MAX_SHRINK");
    }
    fn fuzz_strategy(&self) -> Option<BoxedStrategy<Value>> {
        Some(crate::fuzzmode::jv(cases()))
    }
    fn replay(&self, ctx: &Ctx, case: &Value) -> Obs {
        match serde_json::from_value::<Case>(case.clone()) {
            Ok(c) => judge_case(&c, ctx.tier.pick(5_000, 50_000)),
            Err(e) => Obs::fail("C03:bad-replay-file", format!("cannot parse case: {e}")),
        }
    }
}
