//! C04 — The assembler accepts exactly the programs whose operands fit.
//! Exhaustively enumerated boundary matrix + label-distance matrix + label / .orig discipline +
//! random programs with injected misfits; oracle = RefAsm's acceptance predicate and encoder.

use proptest::prelude::*;
use serde::{Deserialize, Serialize};
use serde_json::Value;

use super::c01::first_lines;
use crate::engine::*;
use crate::gen::*;
use crate::lacebox::{self, AsmResult};
use crate::refasm::*;

pub struct C04;

#[derive(Clone, Debug, Serialize, Deserialize)]
pub struct Case {
    pub program: Program,
    pub stack: bool,
    pub layout: Layout,
    /// what the case is about (for signatures and the non-triviality rule)
    pub focus: String,
    pub nontrivial: bool,
}

pub fn judge_case(c: &Case) -> Obs {
    let mut obs = Obs::default();
    obs.nontrivial = c.nontrivial;
    obs.key = hash_of(&(&c.program, c.stack));
    let verdict = judge(&c.program, c.stack);
    let r = render(&c.program, c.layout);
    obs.show = Some(format!("[{}] {}", c.focus, r.text));
    let got = lacebox::assemble(&r.text, c.stack);
    let compare = |obs: &mut Obs, got: &lacebox::Image, img: &RefImage| {
        if got.orig != img.orig || got.words != img.words {
            let at = got.words.iter().zip(&img.words).position(|(a, b)| a != b);
            obs.set_fail(
                format!("C04:wrong-image:{}", c.focus),
                format!(
                    "accepted, but the image differs from the encoding (first difference at word {at:?}: got {:04X?} expected {:04X?}; orig {:?} vs {:?})\n{}",
                    at.map(|i| got.words[i]), at.map(|i| img.words[i]), got.orig, img.orig, r.text
                ),
            );
        }
    };
    match (&verdict, &got) {
        (_, AsmResult::Panic { msg, loc, phase }) => {
            if matches!(verdict, Verdict::Unspecified(_)) {
                obs.excluded = Some("unspecified input (panic is C05's business)");
            } else {
                obs.set_fail(
                    format!("C04:{}", super::c01::panic_sig(msg, loc)),
                    format!("panic in {phase} instead of accept/diagnostic: {msg} at {loc}\n{}", r.text),
                );
            }
        }
        (Verdict::Accept(img), AsmResult::Ok(g)) => {
            obs.label("expect-accept");
            compare(&mut obs, g, img);
        }
        (Verdict::Accept(_), AsmResult::Err { rendered, phase, .. }) => {
            obs.label("expect-accept");
            obs.set_fail(
                format!("C04:rejected-valid:{}", c.focus),
                format!("every operand fits, but lace rejects it in {phase}:\n{}\n--- source ---\n{}", first_lines(rendered, 5), r.text),
            );
        }
        (Verdict::Reject(why), AsmResult::Ok(g)) => {
            obs.label("expect-reject");
            // Root cause "distance only fits after wrapping modulo 2^16" gets its own signature.
            let wraps = *why == "label out of reach"
                && label_deltas(&c.program).iter().any(|(_, d, bits)| {
                    let lo = -(1i64 << (bits - 1));
                    let hi = (1i64 << (bits - 1)) - 1;
                    let w = (*d as u16) as i16 as i64;
                    (*d < lo || *d > hi) && w >= lo && w <= hi
                });
            obs.set_fail(
                if wraps { "C04:label-distance-wraps-mod-65536".to_string() } else { format!("C04:accepted-invalid:{}", c.focus) },
                format!("must be rejected ({why}) but lace produced {:04X?}\n{}", &g.words[..g.words.len().min(4)], r.text),
            );
        }
        (Verdict::Reject(_), AsmResult::Err { rendered, .. }) => {
            obs.label("expect-reject");
            if rendered.trim().is_empty() {
                obs.set_fail(format!("C04:empty-diagnostic:{}", c.focus), format!("rejected without a diagnostic\n{}", r.text));
            }
        }
        (Verdict::Either(img, _), AsmResult::Ok(g)) => {
            obs.label("expect-either");
            compare(&mut obs, g, img);
        }
        (Verdict::Either(..), AsmResult::Err { .. }) => {
            obs.label("expect-either");
        }
        (Verdict::Unspecified(why), _) => {
            obs.excluded = Some(why);
            obs.nontrivial = false;
        }
    }
    obs
}

// ---------------------------------------------------------------------------------------------
// (a) boundary matrix

struct Form {
    name: String,
    bits: u32,
    signed: bool,
    make: Box<dyn Fn(Lit) -> Stmt>,
}

fn forms() -> Vec<Form> {
    let mut v: Vec<Form> = Vec::new();
    let mut add = |name: &str, bits: u32, signed: bool, make: Box<dyn Fn(Lit) -> Stmt>| {
        v.push(Form { name: name.to_string(), bits, signed, make });
    };
    add("add-imm5", 5, true, Box::new(|l| Stmt::new(Op::Add, &[1, 2], Operand::Lit(l))));
    add("and-imm5", 5, true, Box::new(|l| Stmt::new(Op::And, &[7, 7], Operand::Lit(l))));
    add("ldr-off6", 6, true, Box::new(|l| Stmt::new(Op::Ldr, &[2, 5], Operand::Lit(l))));
    add("str-off6", 6, true, Box::new(|l| Stmt::new(Op::Str, &[7, 3], Operand::Lit(l))));
    for f in 1..=7u8 {
        for explicit in [false, true] {
            if f != 7 && !explicit {
                continue;
            }
            let name = format!("{}-off9", Op::Br(f, explicit).mnemonic());
            add(&name, 9, true, Box::new(move |l| Stmt::new(Op::Br(f, explicit), &[], Operand::Lit(l))));
        }
    }
    for (op, n) in [(Op::Ld, "ld"), (Op::Ldi, "ldi"), (Op::Lea, "lea"), (Op::St, "st"), (Op::Sti, "sti")] {
        add(&format!("{n}-off9"), 9, true, Box::new(move |l| Stmt::new(op, &[4], Operand::Lit(l))));
    }
    add("jsr-off11", 11, true, Box::new(|l| Stmt::new(Op::Jsr, &[], Operand::Lit(l))));
    add("trap-vect8", 8, false, Box::new(|l| Stmt::new(Op::Trap, &[], Operand::Lit(l))));
    add("fill-16", 16, false, Box::new(|l| Stmt::new(Op::Fill, &[], Operand::Lit(l))));
    v
}

fn boundary_values(bits: u32, signed: bool) -> Vec<i32> {
    let mut v = vec![-32768, -32767, -1, 0, 1, 2, 0x7FFF, 0x8000, 0x8001, 0xFFFE, 0xFFFF];
    if signed {
        let lo = -(1i32 << (bits - 1));
        let hi = (1i32 << (bits - 1)) - 1;
        v.extend([lo - 2, lo - 1, lo, lo + 1, hi - 1, hi, hi + 1, hi + 2]);
        // 16-bit patterns whose two's-complement value is at the limits
        v.extend([0x10000 + lo - 1, 0x10000 + lo, 0x10000 - 1]);
    } else {
        let hi = ((1u32 << bits) - 1) as i32;
        v.extend([hi - 1, hi, (hi + 1).min(0xFFFF), (hi / 2), (hi / 2) + 1]);
    }
    v.retain(|x| (-32768..=65535).contains(x));
    v.sort();
    v.dedup();
    v
}

fn spellings(v: i32) -> Vec<Lit> {
    let mut out = vec![Lit::Dec(v)];
    if v >= 0 {
        for f in [0u8, 1, 2, 3, 4 | 8, 2 | 4] {
            out.push(Lit::Hex(v as u16, f));
        }
    } else {
        for f in [0u8, 2, 1 | 4, 8] {
            out.push(Lit::NegHex((-v) as u16, f));
        }
    }
    out
}

fn near_limit(v: i32, bits: u32, signed: bool) -> bool {
    if signed {
        let lo = -(1i32 << (bits - 1));
        let hi = (1i32 << (bits - 1)) - 1;
        let tc = (v as u16) as i16 as i32;
        [v, tc].iter().any(|x| (x - lo).abs() <= 1 || (x - hi).abs() <= 1)
    } else {
        let hi = ((1u32 << bits) - 1) as i32;
        (v - hi).abs() <= 1 || v.abs() <= 1
    }
}

fn matrix(ctx: &Ctx, rep: &mut Report) {
    let mut n = 0u64;
    for form in forms() {
        for v in boundary_values(form.bits, form.signed) {
            for lit in spellings(v) {
                n += 1;
                if !ctx.mine(n) {
                    continue;
                }
                // surrounded by two other statements, so a spill into a neighbour would show
                let lines = vec![
                    Line::stmt(None, Stmt::new(Op::Not, &[1, 2], Operand::None)),
                    Line::stmt(None, (form.make)(lit.clone())),
                    Line::stmt(None, Stmt::simple(Op::Halt)),
                ];
                let case = Case {
                    program: Program { lines },
                    stack: false,
                    layout: Layout { seed: n, style: (n % 2) as u8, end: false },
                    focus: form.name.clone(),
                    nontrivial: near_limit(v, form.bits, form.signed),
                };
                judge_one(ctx, rep, &case, &mut |c| {
                    let mut o = judge_case(c);
                    o.label("matrix");
                    o
                });
            }
        }
    }
    // .orig and .blkw operands
    for v in boundary_values(16, false) {
        for lit in spellings(v) {
            n += 1;
            if !ctx.mine(n) {
                continue;
            }
            let lines = vec![Line { label: None, body: Body::Orig(lit.clone()) }, Line::stmt(None, Stmt::simple(Op::Halt))];
            let case = Case {
                program: Program { lines },
                stack: false,
                layout: Layout { seed: n, style: 0, end: false },
                focus: "orig-16".into(),
                nontrivial: true,
            };
            judge_one(ctx, rep, &case, &mut |c| {
                let mut o = judge_case(c);
                o.label("matrix");
                o
            });
        }
    }
    // the same forms late in a long program: the statement sits on word 32,766..32,769 and on the
    // last words a 16-bit program can have (where "the next address" wraps)
    for form in forms() {
        let lo = if form.signed { -(1i32 << (form.bits - 1)) } else { 0 };
        let hi = if form.signed { (1i32 << (form.bits - 1)) - 1 } else { ((1u32 << form.bits) - 1) as i32 };
        for pad in [0x7FFEu16, 0x7FFF, 0x8000, 0xFFFC, 0xFFFD, 0xFFFE] {
            for v in [lo - 1, lo, lo + 1, -1, 0, 1, hi - 1, hi, hi + 1] {
                if !(-32768..=65535).contains(&v) || (!form.signed && v < 0) {
                    continue;
                }
                n += 1;
                if !ctx.mine(n) {
                    continue;
                }
                let lines = vec![
                    Line::stmt(None, Stmt::new(Op::Blkw, &[], Operand::Lit(Lit::Hex(pad, 0)))),
                    Line::stmt(None, (form.make)(Lit::Dec(v))),
                ];
                let case = Case {
                    program: Program { lines },
                    stack: false,
                    layout: Layout { seed: n, style: (n % 2) as u8, end: false },
                    focus: format!("{}-late-in-program", form.name),
                    nontrivial: true,
                };
                judge_one(ctx, rep, &case, &mut |c| {
                    let mut o = judge_case(c);
                    o.label("matrix-late-in-program");
                    o
                });
            }
        }
    }
    rep.exhaustive.push("boundary matrix: every literal-bearing instruction form x boundary values x spellings; the limits of every form on words 32,766..32,768 and 65,532..65,534 of the program".into());
}

// ---------------------------------------------------------------------------------------------
// (b) label distances

fn pcrel_forms() -> Vec<(String, Op, Vec<u8>, bool)> {
    let mut v = Vec::new();
    for f in 1..=7u8 {
        for explicit in [false, true] {
            if f != 7 && !explicit {
                continue;
            }
            v.push((Op::Br(f, explicit).mnemonic(), Op::Br(f, explicit), vec![], false));
        }
    }
    for (op, n) in [(Op::Ld, "ld"), (Op::Ldi, "ldi"), (Op::Lea, "lea"), (Op::St, "st"), (Op::Sti, "sti")] {
        v.push((n.to_string(), op, vec![3u8], false));
    }
    v.push(("jsr".into(), Op::Jsr, vec![], false));
    v.push(("call".into(), Op::Call, vec![], true));
    v
}

/// Program in which `op` refers to label `L` at distance exactly `delta`.
pub fn distance_program(op: Op, regs: &[u8], delta: i64, big_pad: bool) -> Program {
    let target = Stmt::simple(Op::Halt);
    let refstmt = Stmt::new(op, regs, Operand::Label("L".into()));
    let pad = |k: i64| -> Vec<Line> {
        // padding of exactly k words, as .blkw (and optionally split in two directives)
        if k == 0 {
            vec![]
        } else if big_pad && k > 3 {
            vec![
                Line::stmt(None, Stmt::new(Op::Blkw, &[], Operand::Lit(Lit::Dec((k - 2) as i32)))),
                Line::stmt(None, Stmt::new(Op::Stringz, &[], Operand::Str("a".into()))),
            ]
        } else {
            vec![Line::stmt(None, Stmt::new(Op::Blkw, &[], Operand::Lit(Lit::Hex(k as u16, 0))))]
        }
    };
    let mut lines = Vec::new();
    if delta >= 0 {
        lines.push(Line::stmt(None, refstmt));
        lines.extend(pad(delta));
        lines.push(Line::stmt(Some("L"), target));
    } else if delta == -1 {
        lines.push(Line::stmt(Some("L"), refstmt));
    } else {
        lines.push(Line::stmt(Some("L"), target));
        lines.extend(pad(-delta - 2));
        lines.push(Line::stmt(None, refstmt));
    }
    Program { lines }
}

fn distances(ctx: &Ctx, rep: &mut Report) {
    let mut n = 0u64;
    for (name, op, regs, stack) in pcrel_forms() {
        let bits = op.pcrel_bits().unwrap();
        let lo = -(1i64 << (bits - 1));
        let hi = (1i64 << (bits - 1)) - 1;
        for delta in [lo - 2, lo - 1, lo, lo + 1, -2, -1, 0, 1, hi - 1, hi, hi + 1, hi + 2] {
            for big in [false, true] {
                n += 1;
                if !ctx.mine(n) {
                    continue;
                }
                let case = Case {
                    program: distance_program(op, &regs, delta, big),
                    stack,
                    layout: Layout { seed: n, style: (n % 3) as u8, end: n % 4 == 0 },
                    focus: format!("{name}-label-distance"),
                    nontrivial: (delta - lo).abs() <= 1 || (delta - hi).abs() <= 1,
                };
                judge_one(ctx, rep, &case, &mut |c| {
                    let mut o = judge_case(c);
                    o.label("label-distance");
                    o
                });
            }
        }
    }
    // 16-bit extremes: distances that only fit after wrapping modulo 2^16
    for (name, op, regs, stack) in pcrel_forms() {
        if !matches!(op, Op::Br(7, false) | Op::Ld | Op::Sti | Op::Jsr | Op::Call) {
            continue;
        }
        let bits = op.pcrel_bits().unwrap() as i64;
        let half = 1i64 << (bits - 1);
        for delta in [0x7FFEi64, 0x7FFF, 0x8000, 0x8001, 0xFFFD - half, 0x10000 - half - 1, 0x10000 - half, 0xFFF0, 0xFFFD,
                      -0x7FFF, -0x8000, -0x8001, -(0x10000 - half), -(0x10000 - half) - 1, -0xFFF0, -0xFFFD] {
            if delta.abs() + 3 > 0xFFFF {
                continue;
            }
            n += 1;
            if !ctx.mine(n) {
                continue;
            }
            let case = Case {
                program: distance_program(op, &regs, delta, false),
                stack,
                layout: Layout::CANON,
                focus: format!("{name}-label-distance-beyond-15-bits"),
                nontrivial: true,
            };
            judge_one(ctx, rep, &case, &mut |c| {
                let mut o = judge_case(c);
                o.label("label-distance-16-bit-extremes");
                o
            });
        }
    }
    // the same limits with the reference and its label on opposite sides of word 32768 of the
    // program (where a 16-bit signed statement index changes sign)
    for (name, op, regs, stack) in pcrel_forms() {
        let bits = op.pcrel_bits().unwrap();
        let lo = -(1i64 << (bits - 1));
        let hi = (1i64 << (bits - 1)) - 1;
        for delta in [lo - 1, lo, lo + 1, hi - 1, hi, hi + 1] {
            for k in [1i64, delta.abs() / 2 + 1] {
                n += 1;
                if !ctx.mine(n) {
                    continue;
                }
                let mut program = distance_program(op, &regs, delta, false);
                program.lines.insert(0, Line::stmt(None, Stmt::new(Op::Blkw, &[], Operand::Lit(Lit::Hex((32768 - k) as u16, 0)))));
                let case = Case { program, stack, layout: Layout { seed: n, style: (n % 3) as u8, end: false }, focus: format!("{name}-label-distance-across-word-32768"), nontrivial: true };
                judge_one(ctx, rep, &case, &mut |c| {
                    let mut o = judge_case(c);
                    o.label("label-distance-across-word-32768");
                    o
                });
            }
        }
    }
    rep.exhaustive.push("label distances: every PC-relative form x {min-2..min+1, -2..1, max-1..max+2} x two paddings; {min-1..min+1, max-1..max+1} with reference and label on opposite sides of word 32768".into());
}

// ---------------------------------------------------------------------------------------------
// (c) label discipline, (d) .orig discipline

fn discipline(ctx: &Ctx, rep: &mut Report) {
    let halt = || Stmt::simple(Op::Halt);
    let refl = |op: Op, name: &str| Stmt::new(op, if op.nregs() == 1 { &[2] } else { &[] }, Operand::Label(name.into()));
    let orig = |v: u16| Line { label: None, body: Body::Orig(Lit::Hex(v, 0)) };
    let mut cases: Vec<(String, Program, bool)> = Vec::new();
    for (opn, op, stack) in [("br", Op::Br(7, false), false), ("ld", Op::Ld, false), ("lea", Op::Lea, false), ("st", Op::St, false), ("sti", Op::Sti, false), ("ldi", Op::Ldi, false), ("jsr", Op::Jsr, false), ("call", Op::Call, true)] {
        cases.push((format!("undefined-label-{opn}"), Program { lines: vec![Line::stmt(None, refl(op, "nowhere")), Line::stmt(Some("here"), halt())] }, stack));
        cases.push((format!("defined-label-{opn}"), Program { lines: vec![Line::stmt(None, refl(op, "here")), Line::stmt(Some("here"), halt())] }, stack));
        cases.push((
            format!("case-differing-undefined-{opn}"),
            Program { lines: vec![Line::stmt(None, refl(op, "foo")), Line::stmt(Some("Foo"), halt())] },
            stack,
        ));
        cases.push((
            format!("case-differing-both-{opn}"),
            Program {
                lines: vec![
                    Line::stmt(None, refl(op, "foo")),
                    Line::stmt(None, refl(op, "Foo")),
                    Line::stmt(Some("Foo"), halt()),
                    Line::stmt(Some("foo"), halt()),
                    Line::stmt(Some("FOO"), halt()),
                ],
            },
            stack,
        ));
        cases.push((
            format!("duplicate-label-{opn}"),
            Program { lines: vec![Line::stmt(Some("dup"), refl(op, "dup")), Line::stmt(None, halt()), Line::stmt(Some("dup"), halt())] },
            stack,
        ));
        cases.push((
            format!("self-reference-{opn}"),
            Program { lines: vec![Line::stmt(Some("me"), refl(op, "me"))] },
            stack,
        ));
    }
    cases.push(("duplicate-label-unreferenced".into(), Program { lines: vec![Line::stmt(Some("a"), halt()), Line::stmt(Some("a"), halt())] }, false));
    cases.push(("duplicate-label-on-data".into(), Program { lines: vec![Line::stmt(Some("a"), Stmt::new(Op::Fill, &[], Operand::Lit(Lit::Dec(1)))), Line::stmt(Some("a"), Stmt::new(Op::Stringz, &[], Operand::Str("x".into())))] }, false));
    // duplicates where one definition sits on a `.break` / `.orig` line (which emits no word, so
    // both definitions mark the same address)
    let brk = |l: &str| Line { label: Some((l.into(), false)), body: Body::Break };
    let lorig = |l: &str| Line { label: Some((l.into(), true)), body: Body::Orig(Lit::Hex(0x3000, 0)) };
    cases.push(("duplicate-label-break-then-statement".into(), Program { lines: vec![Line::stmt(None, halt()), brk("dup"), Line::stmt(Some("dup"), halt())] }, false));
    cases.push(("duplicate-label-orig-then-statement".into(), Program { lines: vec![lorig("dup"), Line::stmt(Some("dup"), halt())] }, false));
    cases.push(("duplicate-label-statement-then-break".into(), Program { lines: vec![Line::stmt(Some("dup"), halt()), brk("dup"), Line::stmt(None, halt())] }, false));
    cases.push(("duplicate-label-two-breaks".into(), Program { lines: vec![brk("dup"), brk("dup"), Line::stmt(None, halt())] }, false));
    cases.push(("duplicate-label-break-then-later-statement".into(), Program { lines: vec![brk("dup"), Line::stmt(None, halt()), Line::stmt(Some("dup"), halt())] }, false));
    cases.push(("distinct-labels-break-and-statement".into(), Program { lines: vec![brk("one"), Line::stmt(Some("two"), refl(Op::Lea, "one")), Line::stmt(None, refl(Op::Ld, "two"))] }, false));
    cases.push(("label-at-end-of-file".into(), Program { lines: vec![Line::stmt(None, halt()), Line { label: Some(("tail".into(), false)), body: Body::Break }] }, false));
    cases.push(("orig-none".into(), Program { lines: vec![Line::stmt(None, halt())] }, false));
    cases.push(("orig-once".into(), Program { lines: vec![orig(0x4000), Line::stmt(None, halt())] }, false));
    cases.push(("orig-zero".into(), Program { lines: vec![orig(0), Line::stmt(None, halt())] }, false));
    cases.push(("orig-twice".into(), Program { lines: vec![orig(0x4000), orig(0x5000), Line::stmt(None, halt())] }, false));
    cases.push(("orig-twice-same".into(), Program { lines: vec![orig(0x4000), orig(0x4000), Line::stmt(None, halt())] }, false));
    cases.push(("orig-middle".into(), Program { lines: vec![Line::stmt(None, halt()), orig(0x4000), Line::stmt(None, halt())] }, false));
    cases.push(("orig-first-and-last".into(), Program { lines: vec![orig(0x3000), Line::stmt(None, halt()), Line::stmt(None, halt()), orig(0x3000)] }, false));
    cases.push(("orig-thrice".into(), Program { lines: vec![orig(1), Line::stmt(None, halt()), orig(2), Line::stmt(None, halt()), orig(3)] }, false));
    // words that start like a hex literal (x.., X.., 0x..) but are none are labels, up to the next
    // blank: `xq.lo`, `xq.hi`, `xq-1` and `xq` are four different names
    let fill = |l: &str, v: u16| Line::stmt(Some(l), Stmt::new(Op::Fill, &[], Operand::Lit(Lit::Hex(v, 0))));
    for (a, b) in [("xq.lo", "xq.hi"), ("xq-1", "xq-2"), ("xq", "xq.lo"), ("Xz_a.1", "Xz_a.2"), ("0xq.a", "0xq.b"), ("xq.lo", "xq.lo.x")] {
        cases.push((format!("x-word-labels-distinct-{a}"), Program { lines: vec![Line::stmt(None, refl(Op::Ld, b)), Line::stmt(None, refl(Op::Lea, a)), Line::stmt(None, halt()), fill(a, 1), fill(b, 2)] }, false));
        cases.push((format!("x-word-label-undefined-sibling-{a}"), Program { lines: vec![Line::stmt(None, refl(Op::Ld, b)), Line::stmt(None, halt()), fill(a, 1)] }, false));
        cases.push((format!("x-word-label-duplicate-{a}"), Program { lines: vec![Line::stmt(None, refl(Op::Ld, a)), Line::stmt(None, halt()), fill(a, 1), fill(a, 2)] }, false));
    }
    let mut n = 0u64;
    for (focus, program, stack) in cases {
        for style in 0..3u8 {
            n += 1;
            if !ctx.mine(n) {
                continue;
            }
            let case = Case { program: program.clone(), stack, layout: Layout { seed: n, style, end: style == 1 }, focus: focus.clone(), nontrivial: true };
            judge_one(ctx, rep, &case, &mut |c| {
                let mut o = judge_case(c);
                o.label("discipline");
                o
            });
        }
    }
}

// ---------------------------------------------------------------------------------------------
// (e) random programs with injected misfits

#[derive(Clone, Debug, Serialize, Deserialize)]
pub struct Inject {
    pub kind: u8,
    pub at: u16,
    pub val: RawLit,
    pub over: u8,
}

fn inject(p: &mut Program, inj: &Inject) -> Option<&'static str> {
    let stmt_lines: Vec<usize> = (0..p.lines.len()).filter(|i| matches!(p.lines[*i].body, Body::Stmt(_))).collect();
    if stmt_lines.is_empty() {
        return None;
    }
    let pick = |sel: u16, n: usize| (sel as usize * n) >> 16;
    match inj.kind % 6 {
        0 | 1 => {
            // push a literal field out of range (by 1..=4, or to a 16-bit extreme)
            let cands: Vec<usize> = stmt_lines
                .iter()
                .copied()
                .filter(|i| match &p.lines[*i].body {
                    Body::Stmt(s) => matches!(s.operand, Operand::Lit(_)) && !matches!(s.op, Op::Fill | Op::Blkw),
                    _ => false,
                })
                .collect();
            if cands.is_empty() {
                return None;
            }
            let li = cands[pick(inj.at, cands.len())];
            let Body::Stmt(s) = &mut p.lines[li].body else { return None };
            let (lo, hi) = match s.op {
                Op::Add | Op::And => (-16, 15),
                Op::Ldr | Op::Str => (-32, 31),
                Op::Jsr => (-1024, 1023),
                Op::Trap => (0, 255),
                _ => (-256, 255),
            };
            let over = 1 + (inj.over % 4) as i32;
            let v = match inj.over >> 4 {
                0..=5 => hi + over,
                6..=11 => lo - over,
                12 => 0x7FFF,
                13 => -32768,
                _ => if s.op == Op::Trap { 256 + over } else { 0x7F00 },
            };
            s.operand = Operand::Lit(spell(v, inj.val.spell & 0xFD)); // never NegHex/Hex ambiguity: Dec or Hex of a non-negative < 0x8000
            Some("literal-out-of-range")
        }
        2 => {
            // reference an undefined label
            let cands: Vec<usize> = stmt_lines
                .iter()
                .copied()
                .filter(|i| match &p.lines[*i].body {
                    Body::Stmt(s) => s.op.pcrel_bits().is_some(),
                    _ => false,
                })
                .collect();
            if cands.is_empty() {
                return None;
            }
            let li = cands[pick(inj.at, cands.len())];
            let Body::Stmt(s) = &mut p.lines[li].body else { return None };
            s.operand = Operand::Label("undefined_label".into());
            Some("undefined-label")
        }
        3 => {
            // duplicate an existing label on another statement
            let labelled: Vec<usize> = (0..p.lines.len()).filter(|i| p.lines[*i].label.is_some()).collect();
            if labelled.is_empty() {
                return None;
            }
            let src = labelled[pick(inj.at, labelled.len())];
            let name = p.lines[src].label.clone().unwrap();
            let dst = stmt_lines[pick(inj.val.val as u16, stmt_lines.len())];
            if dst == src {
                return None;
            }
            p.lines[dst].label = Some(name);
            Some("duplicate-label")
        }
        4 if inj.over & 1 == 0 => {
            // duplicate a label onto a `.break` line right before (or after) the labelled statement
            let labelled: Vec<usize> = (0..p.lines.len()).filter(|i| p.lines[*i].label.is_some() && matches!(p.lines[*i].body, Body::Stmt(_))).collect();
            if labelled.is_empty() {
                return None;
            }
            let src = labelled[pick(inj.at, labelled.len())];
            let name = p.lines[src].label.clone().unwrap();
            let at = if inj.over & 2 == 0 { src } else { src + 1 };
            p.lines.insert(at, Line { label: Some(name), body: Body::Break });
            Some("duplicate-label-on-break-line")
        }
        4 => {
            // a second .orig somewhere
            if !p.lines.iter().any(|l| matches!(l.body, Body::Orig(_))) {
                p.lines.insert(0, Line { label: None, body: Body::Orig(Lit::Hex(0x3000, 0)) });
            }
            let at = pick(inj.at, p.lines.len() + 1);
            p.lines.insert(at, Line { label: None, body: Body::Orig(Lit::Hex(inj.val.val as u16, 0)) });
            Some("repeated-orig")
        }
        _ => {
            // move a label reference out of reach with padding
            let cands: Vec<usize> = stmt_lines
                .iter()
                .copied()
                .filter(|i| match &p.lines[*i].body {
                    Body::Stmt(s) => matches!(s.operand, Operand::Label(_)) && s.op.pcrel_bits().is_some(),
                    _ => false,
                })
                .collect();
            if cands.is_empty() {
                return None;
            }
            let li = cands[pick(inj.at, cands.len())];
            let Body::Stmt(s) = &p.lines[li].body else { return None };
            let bits = s.op.pcrel_bits().unwrap();
            let pad = (1i32 << bits) + (inj.over as i32 % 7);
            // padding right after the referencing statement pushes forward targets away; padding
            // right before it pushes backward targets away: do both
            p.lines.insert(li + 1, Line::stmt(None, Stmt::new(Op::Blkw, &[], Operand::Lit(Lit::Dec(pad)))));
            p.lines.insert(li, Line::stmt(None, Stmt::new(Op::Blkw, &[], Operand::Lit(Lit::Dec(pad)))));
            Some("label-out-of-reach")
        }
    }
}

fn inject_strategy() -> impl Strategy<Value = Inject> {
    (any::<u8>(), any::<u16>(), raw_lit(), any::<u8>()).prop_map(|(kind, at, val, over)| Inject { kind, at, val, over })
}

fn random_cases() -> impl Strategy<Value = Case> {
    (raw_program(20), prop::collection::vec(inject_strategy(), 0..3), layout()).prop_map(|(raw, injs, layout)| {
        let mut program = build_program(&raw);
        let mut focus = Vec::new();
        for inj in &injs {
            if let Some(what) = inject(&mut program, inj) {
                focus.push(what);
            }
        }
        let nontrivial = !focus.is_empty();
        let focus = if focus.is_empty() { "random-valid".to_string() } else { format!("random-{}", focus[0]) };
        Case { program, stack: raw.stack, layout, focus, nontrivial }
    })
}

impl Prop for C04 {
    fn id(&self) -> &'static str {
        "C04"
    }
    fn rule(&self) -> &'static str {
        "Deterministic matrices (every run): (a) every literal-bearing instruction form x {min-2..min+1, -1, 0, 1, max-1..max+2, 0x7FFF, 0x8000, 0xFFFF, -32768, 16-bit patterns at the two's-complement limits} x spellings (#dec, xH, 0xH, XH, x-H, 0x-H), and the limits of every form again on words 32,766..32,768 and 65,532..65,534 of a long program; \
         (b) label distances exactly at/around +-2^(n-1) for every PC-relative form (8 BR spellings, LD/LDI/LEA/ST/STI, JSR, CALL) built with .blkw padding, before/after/on the statement, at the start of the program and straddling word 32768 of it; (c) undefined / duplicate / case-differing labels, incl. words that start like a hex literal but are labels (`xq.lo` / `xq.hi` / `xq-1` / `xq` are different names); (d) .orig zero, once, twice, in the middle; \
         (e) random programs with 0-2 injected misfits (literal out of range, undefined label, duplicate label, repeated .orig, label pushed out of reach). Oracle: accepted <=> RefAsm.accepts(AST); when accepted the image equals the encoder's; when rejected there is a diagnostic, not a panic. \
         Non-trivial: focus operand within +-1 of a field limit, a label-discipline / .orig case, or a random program with an injected misfit. Distinct = hash(AST, flag)."
    }
    fn assumptions(&self) -> Vec<String> {
        vec![
            "RefAsm acceptance predicate (DESIGN.md Appendix B) is the reading of C04's statement".into(),
            "Hex spellings >= 0x8000 in a signed field have two readings: only 'if accepted, the field equals the two's-complement reading' is asserted; decimal 32768..65535 in signed fields and negative .orig are not asserted".into(),
        ]
    }
    fn run_worker(&self, ctx: &Ctx, rep: &mut Report) {
        matrix(ctx, rep);
        distances(ctx, rep);
        discipline(ctx, rep);
        let n = ctx.share(ctx.tier.pick(20_000, 300_000));
        drive(ctx, rep, "random-misfits", random_cases(), n, &mut |c: &Case| {
            let mut o = judge_case(c);
            o.label("random");
            o
        });
    }
    fn fuzz_strategy(&self) -> Option<BoxedStrategy<Value>> {
        Some(crate::fuzzmode::jv(random_cases()))
    }
    fn replay(&self, _ctx: &Ctx, case: &Value) -> Obs {
        match serde_json::from_value::<Case>(case.clone()) {
            Ok(c) => judge_case(&c),
            Err(e) => Obs::fail("C04:bad-replay-file", format!("cannot parse case: {e}")),
        }
    }
}
