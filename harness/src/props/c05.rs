//! C05 — The assembler is total: any text yields an image or a diagnostic.
//! Grammar-aware mutation of valid programs (token level, character level), lone prefixes,
//! size extremes. Oracle: no panic anywhere in lex → parse → backpatch → emit → render; diagnostic
//! spans lie inside the source.

use proptest::prelude::*;
use serde::{Deserialize, Serialize};
use serde_json::Value;

use super::c04::distance_program;
use crate::engine::*;
use crate::gen::*;
use crate::lacebox::{self, AsmResult};
use crate::refasm::*;

pub struct C05;

#[derive(Clone, Debug, Serialize, Deserialize)]
pub struct Case {
    pub text: String,
    pub stack: bool,
    pub mutated: bool,
    pub kind: String,
    /// judge through the real binary (`lace check`, unoptimised debug build; release too in the
    /// thorough tier) instead of in-process: stack depth and frame sizes are those a user gets
    #[serde(default)]
    pub cli: bool,
    /// the text holds a character that can start no token, on a line of its own between
    /// statements: whatever else is in it, assembling must end in a diagnostic (never in an image
    /// of the part before it)
    #[serde(default)]
    pub must_reject: bool,
}

/// `lace check <file>` in a process of its own: any exit by signal, status 101 or with a panic
/// message is a crash. A panic's site is parsed from stderr so that known findings keep their
/// signature.
fn judge_cli(text: &str, release: bool) -> Option<(String, String)> {
    use crate::cli::{self, TempDir};
    let dir = TempDir::new();
    dir.write("f.asm", text.as_bytes());
    let run = cli::lace(&["check", "f.asm"], dir.path(), &[], release, 300);
    if run.timed_out {
        return None; // watchdog: infrastructure, not a verdict
    }
    if !run.panicked() {
        return None;
    }
    let err = String::from_utf8_lossy(&run.stderr).to_string();
    let sig = match err.find("panicked at ") {
        Some(i) => {
            let rest = &err[i + "panicked at ".len()..];
            let loc_full = rest.lines().next().unwrap_or("").trim_end_matches(':');
            // "<file>:<line>:<col>" -> "<file>:<line>"
            let loc = loc_full.rsplitn(2, ':').nth(1).unwrap_or(loc_full);
            let msg = rest.lines().nth(1).unwrap_or("").trim();
            format!("C05:{}", super::c01::panic_sig(msg, loc))
        }
        None if err.contains("overflowed its stack") => "C05:cli-stack-overflow".to_string(),
        None => format!("C05:cli-killed-by-signal-{}", run.signal.unwrap_or(0)),
    };
    Some((sig, format!("`lace check` ({} build) crashed: {}\n--- source ---\n{}", if release { "release" } else { "debug" }, run.brief(), clip(text))))
}

pub fn judge_text(text: &str, stack: bool) -> Option<(String, String)> {
    match lacebox::assemble(text, stack) {
        AsmResult::Ok(_) => None,
        AsmResult::Err { spans, rendered, .. } => {
            let spans2 = spans.clone();
            for (off, len) in spans {
                if off + len > text.len() {
                    return Some((
                        "C05:span-outside-source".into(),
                        format!("diagnostic label span {off}+{len} lies outside the {}-byte source\n{}", text.len(), clip(text)),
                    ));
                }
            }
            for (off, len) in spans2 {
                // "points inside the source": the span denotes a substring of the source text
                if text.get(off..off + len).is_none() {
                    return Some((
                        "C05:span-not-a-substring".into(),
                        format!("diagnostic label span {off}+{len} is not a substring of the source (it cuts a multi-byte character)\n{}", clip(text)),
                    ));
                }
            }
            if rendered.trim().is_empty() {
                return Some(("C05:empty-diagnostic".into(), format!("diagnostic renders as nothing\n{}", clip(text))));
            }
            None
        }
        AsmResult::Panic { msg, loc, phase } => Some((
            format!("C05:{}", super::c01::panic_sig(&msg, &loc)),
            format!("panic in {phase}: {msg} at {loc}\n--- source ---\n{}", clip(text)),
        )),
    }
}

fn clip(s: &str) -> String {
    if s.len() <= 600 {
        s.to_string()
    } else {
        let mut end = 300;
        while !s.is_char_boundary(end) {
            end += 1;
        }
        let mut start = s.len() - 200;
        while !s.is_char_boundary(start) {
            start += 1;
        }
        format!("{} ...[{} bytes]... {}", &s[..end], s.len(), &s[start..])
    }
}

pub fn judge_case(c: &Case) -> Obs {
    let mut obs = Obs::default();
    obs.key = hash_of(&(&c.text, c.stack));
    obs.nontrivial = c.mutated && c.text.chars().any(|ch| !ch.is_whitespace() && ch != ',' && ch != ':');
    obs.show = Some(format!("[{}] {}", c.kind, clip(&c.text)));
    if c.cli {
        obs.label("through-the-real-binary");
        let release = std::env::var("VERIF_CLI_REL").map(|p| std::path::Path::new(&p).exists()).unwrap_or(false);
        if let Some((sig, msg)) = judge_cli(&c.text, false).or_else(|| if release { judge_cli(&c.text, true) } else { None }) {
            obs.set_fail(sig, msg);
        }
        return obs;
    }
    if let Some((sig, msg)) = judge_text(&c.text, c.stack) {
        obs.set_fail(sig, msg);
    } else if c.must_reject && lacebox::assemble(&c.text, c.stack).is_ok() {
        obs.set_fail(
            "C05:junk-line-accepted",
            format!("the source contains a character that can start no token, yet assembling returns an image (the text around it was dropped silently)\n--- source ---\n{}", clip(&c.text)),
        );
    }
    obs
}

// ---------------------------------------------------------------------------------------------

pub const TOKEN_POOL: &[&str] = &[
    "r0", "r1", "R7", "r8", "r00", "R", "r", "foo", "loop", "Loop", "_", "x", "X", ".break", ".end", ".orig", ".fill",
    ".blkw", ".stringz", ".FILL", ".Break", ".bogus", ".", "..", ".fill.", "\"abc\"", "\"\"", "\"unterminated", "\"a\\\"", "\"é日😀\"",
    "\"a\\", "\"\\", "\"a\nb\"", "#0", "#-1", "#32767", "#-32768", "#65535", "#65536", "#-32769", "#15", "#16", "#-16", "#-17",
    "x0", "xFFFF", "x10000", "x-1", "x-8000", "x-8001", "0x7FFF", "0x8000", "x1F", "x20", "#", "x", "0x", "x-", "#-", "##", "#1a", "xg",
    "0xg", "#+1", "x+1", "#é", "xé", "0xé", "#1é", "x1é", "; c", ";", ";é", "add", "and", "not", "br", "brn", "brz", "brp", "brnz", "brnp",
    "brzp", "brnzp", "jmp", "ret", "jsr", "jsrr", "ld", "ldi", "lea", "st", "sti", "ldr", "str", "rti", "trap", "getc", "out",
    "puts", "in", "putsp", "halt", "putn", "reg", "push", "pop", "call", "rets", "ADD", "Halt", "@", "$", "é", "😀", "日本", ",", ":", "\\",
    "'", "r0;c", "x1;c", "\"a\";c", "a,b", "12", "0", "00", "1x", "--", "-1", "+1", "\0", "a\0b", "\u{FEFF}", "\u{2028}", "r0é", "ré",
    "addé", ".fillé", "é.fill", "x\u{301}", "\t", "\r", "\r\n", "\u{b}", "\u{c}", "\u{a0}", "#99999999999999999999", "xFFFFFFFFFFFFFFFFFFFF",
];

/// Numbers at the limits of every integer width (2^7 .. 2^128, each -1 / +0 / +1), written as a
/// bare digit string, with leading zeros, with a sign, and under every literal prefix.
pub fn numeric_edges() -> &'static Vec<String> {
    static EDGES: std::sync::OnceLock<Vec<String>> = std::sync::OnceLock::new();
    EDGES.get_or_init(|| {
        let mut out = Vec::new();
        for bits in [7u32, 8, 15, 16, 31, 32, 63, 64, 127] {
            for d in [-1i32, 0, 1] {
                let v: u128 = if d < 0 { (1u128 << bits) - 1 } else { (1u128 << bits) + d as u128 };
                out.push(format!("{v}"));
                out.push(format!("000{v}"));
                out.push(format!("-{v}"));
                out.push(format!("#{v}"));
                out.push(format!("#-{v}"));
                out.push(format!("x{v:X}"));
                out.push(format!("0x{v:x}"));
                out.push(format!("x-{v:X}"));
            }
        }
        out.push("340282366920938463463374607431768211456".into()); // 2^128
        out.push("#340282366920938463463374607431768211456".into());
        out.push("x100000000000000000000000000000000".into());
        out.push("9".repeat(80));
        out
    })
}

/// The token pool of the generators: the fixed list plus the numeric edges.
fn pool() -> &'static Vec<String> {
    static POOL: std::sync::OnceLock<Vec<String>> = std::sync::OnceLock::new();
    POOL.get_or_init(|| TOKEN_POOL.iter().map(|s| s.to_string()).chain(numeric_edges().iter().cloned()).collect())
}

const INSERT_CHARS: &[char] = &['é', 'ß', '日', '€', '😀', '\u{301}', '\u{7FF}', '\u{800}', '\u{FFFF}', '\u{10000}', '\u{10FFFF}', '\0', ';', '"', '\\', '.', '#', 'x', '-', ',', ':', '\n', '\r'];

#[derive(Clone, Debug, Serialize, Deserialize)]
pub enum Mutation {
    Delete(u16),
    Duplicate(u16),
    Swap(u16, u16),
    Replace(u16, u16),
    InsertTok(u16, u16),
    /// insert a character at a character position of the final text
    InsertChar(u16, u8),
    /// delete a character of the final text
    DeleteChar(u16),
    /// remove the whitespace before a token (abut it to its predecessor)
    Abut(u16),
    /// truncate the final text at a character position
    Truncate(u16),
}

fn mutation() -> impl Strategy<Value = Mutation> {
    crate::pick![
        2 => any::<u16>().prop_map(Mutation::Delete),
        1 => any::<u16>().prop_map(Mutation::Duplicate),
        1 => (any::<u16>(), any::<u16>()).prop_map(|(a, b)| Mutation::Swap(a, b)),
        4 => (any::<u16>(), any::<u16>()).prop_map(|(a, b)| Mutation::Replace(a, b)),
        2 => (any::<u16>(), any::<u16>()).prop_map(|(a, b)| Mutation::InsertTok(a, b)),
        4 => (any::<u16>(), any::<u8>()).prop_map(|(a, b)| Mutation::InsertChar(a, b)),
        1 => any::<u16>().prop_map(Mutation::DeleteChar),
        2 => any::<u16>().prop_map(Mutation::Abut),
        1 => any::<u16>().prop_map(Mutation::Truncate),
    ]
}

/// Tokens of a program, one physical line per program line; "\n" is a token.
fn tokens_of(p: &Program) -> Vec<String> {
    let mut out = Vec::new();
    for line in &p.lines {
        if let Some((name, colon)) = &line.label {
            out.push(if *colon { format!("{name}:") } else { name.clone() });
        }
        match &line.body {
            Body::Break => out.push(".break".into()),
            Body::Orig(l) => {
                out.push(".orig".into());
                out.push(l.text());
            }
            Body::Stmt(s) => {
                out.push(s.op.mnemonic());
                for r in &s.regs {
                    out.push(format!("r{}", r & 7));
                }
                match &s.operand {
                    Operand::None => {}
                    Operand::Reg(r) => out.push(format!("r{}", r & 7)),
                    Operand::Lit(l) => out.push(l.text()),
                    Operand::Label(n) => out.push(n.clone()),
                    Operand::Str(t) => {
                        let mut s = String::from("\"");
                        for c in t.chars() {
                            match c {
                                '\n' => s.push_str("\\n"),
                                '\t' => s.push_str("\\t"),
                                '\r' => s.push_str("\\r"),
                                '\\' => s.push_str("\\\\"),
                                '"' => s.push_str("\\\""),
                                c => s.push(c),
                            }
                        }
                        s.push('"');
                        out.push(s);
                    }
                }
            }
        }
        out.push("\n".into());
    }
    out
}

fn idx(sel: u16, n: usize) -> usize {
    (sel as usize * n) >> 16
}

fn apply(tokens: Vec<String>, muts: &[Mutation]) -> (String, bool) {
    let mut toks = tokens;
    let mut abut: Vec<usize> = Vec::new();
    let mut changed = false;
    for m in muts {
        if toks.is_empty() {
            break;
        }
        let n = toks.len();
        match m {
            Mutation::Delete(a) => {
                toks.remove(idx(*a, n));
                changed = true;
            }
            Mutation::Duplicate(a) => {
                let i = idx(*a, n);
                let t = toks[i].clone();
                toks.insert(i, t);
                changed = true;
            }
            Mutation::Swap(a, b) => {
                let (i, j) = (idx(*a, n), idx(*b, n));
                if toks[i] != toks[j] {
                    changed = true;
                }
                toks.swap(i, j);
            }
            Mutation::Replace(a, b) => {
                let i = idx(*a, n);
                toks[i] = pool()[idx(*b, pool().len())].clone();
                changed = true;
            }
            Mutation::InsertTok(a, b) => {
                toks.insert(idx(*a, n + 1), pool()[idx(*b, pool().len())].clone());
                changed = true;
            }
            Mutation::Abut(a) => {
                abut.push(idx(*a, n));
                changed = true;
            }
            _ => {}
        }
    }
    let mut text = String::new();
    for (i, t) in toks.iter().enumerate() {
        if i > 0 && t != "\n" && toks[i - 1] != "\n" && !abut.contains(&i) {
            text.push(' ');
        }
        text.push_str(t);
    }
    for m in muts {
        let nchars = text.chars().count();
        match m {
            Mutation::InsertChar(a, c) => {
                let pos = idx(*a, nchars + 1);
                let byte = text.char_indices().nth(pos).map(|(b, _)| b).unwrap_or(text.len());
                text.insert(byte, INSERT_CHARS[*c as usize % INSERT_CHARS.len()]);
                changed = true;
            }
            Mutation::DeleteChar(a) if nchars > 0 => {
                let pos = idx(*a, nchars);
                let byte = text.char_indices().nth(pos).map(|(b, _)| b).unwrap();
                text.remove(byte);
                changed = true;
            }
            Mutation::Truncate(a) if nchars > 0 => {
                let pos = idx(*a, nchars);
                let byte = text.char_indices().nth(pos).map(|(b, _)| b).unwrap();
                text.truncate(byte);
                changed = true;
            }
            _ => {}
        }
    }
    (text, changed)
}

fn mutated_cases() -> impl Strategy<Value = Case> {
    (raw_program(12), prop::collection::vec(mutation(), 1..5)).prop_map(|(raw, muts)| {
        let p = build_program(&raw);
        let (text, changed) = apply(tokens_of(&p), &muts);
        Case { text, stack: raw.stack, mutated: changed, kind: "mutated-program".into(), cli: false, must_reject: false }
    })
}

/// Token soup: sequences drawn straight from the pool (no valid skeleton).
fn soup_cases() -> impl Strategy<Value = Case> {
    (prop::collection::vec((any::<u16>(), 0u8..8), 1..14), any::<bool>()).prop_map(|(sel, stack)| {
        let mut text = String::new();
        for (s, sep) in sel {
            text.push_str(&pool()[idx(s, pool().len())]);
            text.push_str([" ", "\n", ",", "", " ", "\t", ":", " "][sep as usize]);
        }
        Case { text, stack, mutated: true, kind: "token-soup".into(), cli: false, must_reject: false }
    })
}

/// Arbitrary unicode strings (byte-level flavour within valid UTF-8).
fn string_cases() -> impl Strategy<Value = Case> {
    (".{0,40}", any::<bool>()).prop_map(|(text, stack)| Case { text, stack, mutated: true, kind: "arbitrary-string".into(), cli: false, must_reject: false })
}

// ---------------------------------------------------------------------------------------------
// deterministic lists

/// Multi-byte characters inserted at every token boundary and inside every token of a set of
/// representative statements.
fn char_positions(ctx: &Ctx, rep: &mut Report) {
    let bases = [
        "add r0 r1 #-1", "lbl: ld r2 lbl", "ldr r1, r2, x1F", ".orig 0x3000", ".fill x-1", ".blkw #2", ".stringz \"hé\\n\"",
        "trap x25 ; comment", "brnzp #-3", "jsr x3FF", ".break", "halt\n.end", "push r0", "call f", "r0", "x", "0x", "#", ".", "\"", "a b",
        "lea r0 \"s\"", "not r1 r2 ; é", "st r7 #255",
    ];
    let chars = ['é', '日', '😀', '\u{301}', '\0'];
    let mut n = 0u64;
    for b in bases {
        let count = b.chars().count();
        for pos in 0..=count {
            for ch in chars {
                n += 1;
                if !ctx.mine(n) {
                    continue;
                }
                let byte = b.char_indices().nth(pos).map(|(x, _)| x).unwrap_or(b.len());
                let mut text = b.to_string();
                text.insert(byte, ch);
                for stack in [false, true] {
                    let case = Case { text: text.clone(), stack, mutated: true, kind: "char-at-every-position".into(), cli: false, must_reject: false };
                    judge_one(ctx, rep, &case, &mut |c| {
                        let mut o = judge_case(c);
                        o.label("char-positions");
                        o
                    });
                }
            }
        }
    }
    rep.exhaustive.push("2/3/4-byte, combining and NUL characters inserted at every character position of 24 representative statements".into());
}

/// Every numeric edge token in every operand position (and in label position) of representative
/// statements.
fn numeric_positions(ctx: &Ctx, rep: &mut Report) {
    let frames = ["add r0 r0 @", "and r1 r1 @", "ldr r0 r1 @", "br @", "ld r2 @", "lea r0 @", "jsr @", "trap @", ".orig @", ".fill @", ".blkw @", "@ add r0 r0 #1", "@: halt\nbr @", "foo @", "add @ r0 r0", "push @", "call @", ".stringz @", "@"];
    let mut n = 0u64;
    for f in frames {
        for t in numeric_edges() {
            n += 1;
            if !ctx.mine(n) {
                continue;
            }
            let case = Case { text: f.replace('@', t), stack: n % 2 == 0, mutated: true, kind: "numeric-edge-in-every-position".into(), cli: false, must_reject: false };
            judge_one(ctx, rep, &case, &mut |c| {
                let mut o = judge_case(c);
                o.label("numeric-edges");
                o
            });
        }
    }
    rep.exhaustive.push(format!("{} numeric edge tokens (limits of every integer width in every spelling) in {} statement positions", numeric_edges().len(), frames.len()));
}

/// Programs that cross the capacity of the address space in every order: all sequences of up to
/// 4 (thorough: 5) statements over an alphabet of large and small `.blkw`, `.stringz`, `.fill` and
/// an instruction - whatever counts words must agree with itself whichever statement crosses 2^16.
fn capacity_crossings(ctx: &Ctx, rep: &mut Report) {
    let long = format!(".stringz \"{}\"", "a".repeat(32_767));
    let alphabet: [(&str, u32); 9] = [(".blkw xFFFF", 65_535), (".blkw x8000", 32_768), (".blkw x7FFF", 32_767), (".blkw x1", 1), (".blkw x0", 0), (".stringz \"a\"", 2), (&long, 32_768), (".fill x1", 1), ("add r0 r0 #1", 1)];
    let max = ctx.tier.pick(4usize, 5);
    let mut n = 0u64;
    let mut total = 0u64;
    for len in 1..=max {
        for code in 0..alphabet.len().pow(len as u32) {
            n += 1;
            if !ctx.mine(n) {
                continue;
            }
            let mut k = code;
            let mut text = String::new();
            let mut words = 0u32;
            for _ in 0..len {
                let (t, w) = alphabet[k % alphabet.len()];
                k /= alphabet.len();
                text.push_str(t);
                text.push('\n');
                words += w;
            }
            // (below the capacity nothing is at stake: a sample of those is enough)
            if words < 65_535 && code % 7 != 0 {
                continue;
            }
            total += 1;
            let case = Case { text, stack: false, mutated: true, kind: "capacity-crossing".into(), cli: false, must_reject: false };
            judge_one(ctx, rep, &case, &mut |c| {
                let mut o = judge_case(c);
                o.label("capacity-crossings");
                o.nontrivial = words >= 65_535;
                o
            });
        }
    }
    let _ = total;
    rep.exhaustive.push(format!("all sequences of 1..={max} statements over 9 kinds (.blkw xFFFF / x8000 / x7FFF / x1 / x0, .stringz of 2 and of 32,768 words, .fill, an instruction) whose sizes add up to 65,535 words or more (a seventh of the smaller ones)"));
}

/// A character that can start no token (NUL, other control characters, symbols outside the
/// grammar), alone on a line, at every line boundary of small valid programs: the result must be
/// a diagnostic.
fn junk_lines(ctx: &Ctx, rep: &mut Report) {
    let programs = [
        "start add r0 r0 #1\nloop brp loop\nhalt\n",
        ".orig x4000\nlea r0 msg\nputs\nhalt\nmsg .stringz \"hi\"\nval .fill x1234\n",
        "far .fill #1\nhalt\n.blkw #300\nld r0 far\n",
    ];
    let junk = ['\0', '\u{1}', '\u{7f}', '@', '$', '!', '%', '&', '*', '(', ')', '`', '~', '=', '?', '|', '^', '{', '\u{FEFF}', '\u{200B}', 'é', '😀'];
    let mut n = 0u64;
    for p in programs {
        let lines: Vec<&str> = p.lines().collect();
        for at in 0..=lines.len() {
            for j in junk {
                n += 1;
                if !ctx.mine(n) {
                    continue;
                }
                let mut text = String::new();
                for (i, l) in lines.iter().enumerate() {
                    if i == at {
                        text.push(j);
                        text.push('\n');
                    }
                    text.push_str(l);
                    text.push('\n');
                }
                if at == lines.len() {
                    text.push(j);
                    text.push('\n');
                }
                let case = Case { text, stack: false, mutated: true, kind: "junk-line".into(), cli: false, must_reject: true };
                judge_one(ctx, rep, &case, &mut |c| {
                    let mut o = judge_case(c);
                    o.label("junk-line-must-be-rejected");
                    o
                });
            }
        }
    }
    rep.exhaustive.push(format!("{} characters that can start no token, alone on a line at every line boundary of 3 valid programs: must end in a diagnostic", junk.len()));
}

fn fixed_list(ctx: &Ctx, rep: &mut Report) {
    let mut texts: Vec<(String, String)> = Vec::new();
    let mut add = |k: &str, t: String| texts.push((k.to_string(), t));
    for t in ["", " ", "\n", "\n\n\n", ",", ":", ";", ";\n", "\t \r\n", "\0", "x", "X", "#", ".", "0x", "x-", "#-", "\"", "\"\\", "0", "r", "R7",
        ".end", ".END", ".end halt", ".orig", ".fill", ".blkw", ".stringz", ".break", ".break .break", "lbl", "lbl:", "lbl lbl", "lbl .break",
        "lbl .orig x3000", "add", "add r0", "add r0 r0", "add r0 r0 r0 r0", "halt halt", "ld r0", "br", "jsr", "trap", "call", "push",
        ".fill \"s\"", ".blkw \"s\"", ".stringz #1", ".stringz x", ".orig \"s\"", ".orig lbl", ".fill lbl", ".blkw lbl", ".blkw .blkw",
        "add r0 r0 .fill x3", "add r0 r0 .blkw #1", "add r0 .stringz \"a\"", "ld r0 .break", "ld .break r0 x", "br .end", "jsr .orig x1",
        "add .fill x1 r0", "not r0 .fill #1", "ldr r0 r1 .fill x1", "trap .fill x1", "lea r0 .stringz \"a\"", "st r0 .blkw #1", "jmp .fill x0",
        "push .fill x1", "call .fill x1", ".orig .fill x1", ".orig x3000 .orig", ".fill .fill", ".blkw .fill x1", ".stringz .stringz",
        "lbl .fill x1 lbl2", ".fill #65535", ".fill #-32768", ".fill x-8000", ".blkw #0", ".blkw x0", ".blkw #-1", ".blkw x-1",
        "trap x-1", "trap #-1", "add r0 r0 #-32768", "add r0 r0 xFFFF", "ldr r0 r0 #32767", "br #-32768", "br x8000", "br #32767", "jsr #-32768",
        "jsr x7FFF", "ld r0 x-8000", "a br a", "a br b", "a b c", "1 2 3", "0 halt", "12 halt", "12: halt\nbr 12", "x1g halt", "xg .fill x1",
    ] {
        add("fixed-small", t.to_string());
    }
    // size extremes
    add("blkw-ffff-plus-one", ".blkw xFFFF\nhalt".into());
    add("blkw-ffff-plus-two", ".blkw xFFFF\nhalt\nhalt".into());
    add("blkw-ffff-labelled", "a .blkw xFFFF\nb halt\nbr a\nbr b".into());
    add("blkw-ffff-x3", ".blkw xFFFF\n.blkw xFFFF\n.blkw xFFFF\nhalt".into());
    add("blkw-negative", ".blkw #-1\nhalt".into());
    add("blkw-negative-min", "a .blkw #-32768\nb halt\nld r0 a".into());
    add("blkw-fffe-then-stringz", ".blkw xFFFE\n.stringz \"abc\"\nhalt".into());
    for op in [Op::Br(7, false), Op::Ld, Op::Jsr] {
        for d in [0x7FFEi64, 0x7FFF, 0x8000, 0x8001, 0xFDFF, 0xFFF0, 0xFFFD, -0x7FFF, -0x8000, -0x8001, -0x8002, -0xFFF0, -0xFFFD] {
            let regs: &[u8] = if op == Op::Ld { &[1] } else { &[] };
            let p = distance_program(op, regs, d, false);
            add("label-distance-extreme", render(&p, Layout::CANON).text);
        }
    }
    let mut many = String::new();
    for _ in 0..70_000 {
        many.push_str("halt\n");
    }
    add("70000-statements", many.clone());
    add("70000-statements-labelled", format!("a {many}b br a\nbr b\n"));
    let mut lbls = String::new();
    for i in 0..66_000 {
        lbls.push_str(&format!("l{i} .fill #{}\n", i % 30000));
    }
    add("66000-labels", lbls);
    add("stringz-70000", format!(".stringz \"{}\"\nhalt", "a".repeat(70_000)));
    add("stringz-70000-multibyte", format!("s .stringz \"{}\"\nlea r0 s", "é".repeat(70_000)));
    add("comment-70000", format!("halt ; {}\n", "c".repeat(70_000)));
    add("one-long-token", "a".repeat(70_000));
    add("one-long-hex", format!("x{}", "F".repeat(70_000)));
    // very long runs of one kind of insignificant or repeated item (whatever walks over them must
    // do so in constant stack)
    for (name, unit) in [
        ("comment-lines", "; a comment line\n"), ("blank-lines", "\n"), ("blanks", " "), ("commas", ","), ("colons", ":"), ("tabs", "\t"), ("crlf-lines", "\r\n"),
        ("break-directives", ".break\n"), ("end-less-labels", "lbl\n"), ("nested-looking-strings", "\"a\" "), ("semicolons", ";"),
    ] {
        for count in [400_000usize, 1_200_000] {
            add(&format!("{count}-{name}"), format!("start add r0 r0 #1\n{}halt\n", unit.repeat(count)));
        }
    }
    add("comment-lines-only", "; nothing but comments\n".repeat(1_000_000));
    // `.break` directives on different addresses (whatever records them grows, and may switch
    // strategy when it does)
    for count in [17usize, 18, 33, 100, 5_000, 60_000] {
        add(&format!("{count}-breaks-on-distinct-addresses"), format!("{}halt\n", "add r0 r0 #1\n.break\n".repeat(count)));
    }
    let mut n = 0u64;
    for (kind, text) in texts {
        n += 1;
        if !ctx.mine(n) {
            continue;
        }
        if kind != "fixed-small" {
            // size extremes also through the real, unoptimised binary (stack depth, frame sizes)
            let case = Case { text: text.clone(), stack: false, mutated: true, kind: kind.clone(), cli: true, must_reject: false };
            judge_one(ctx, rep, &case, &mut |c| {
                let mut o = judge_case(c);
                o.label("size-extreme");
                o
            });
        }
        for stack in [false, true] {
            let case = Case { text: text.clone(), stack, mutated: true, kind: kind.clone(), cli: false, must_reject: false };
            judge_one(ctx, rep, &case, &mut |c| {
                let mut o = judge_case(c);
                o.label(if c.kind == "fixed-small" { "fixed-small" } else { "size-extreme" });
                o
            });
        }
    }
}

impl Prop for C05 {
    fn id(&self) -> &'static str {
        "C05"
    }
    fn rule(&self) -> &'static str {
        "Texts: (a) valid generated programs with 1-4 token-level mutations (delete, duplicate, swap, replace/insert a token of any kind from a ~400-entry pool incl. directives, strings, edge literals, junk and numbers at the limits of every integer width 2^7..2^128 in every spelling), abutting, character insertion/deletion and truncation; \
         (b) token soup from the pool; (c) arbitrary unicode strings; (d) multi-byte / combining / NUL characters at every character position of 24 representative statements (enumerated); (e) every numeric edge token in every operand / label position of 19 statement frames (enumerated); (f) a fixed list of lone prefixes, directives in operand position and size extremes \
         (.blkw xFFFF + statements, label distances 0x7FFE..0xFFFD in both directions, 70,000 statements, 66,000 labels, 70,000-character strings/tokens, runs of 400,000 and 1,200,000 comment lines / blank lines / blanks / commas / colons / `.break` directives / labels, 17 .. 60,000 `.break` directives on distinct addresses). The size extremes are also judged through the real binary (`lace check`, unoptimised debug build; release too in thorough), where stack depth and frame sizes are the user's. thorough adds libFuzzer campaigns (fuzz/asm_total). \
         (g) characters that can start no token (NUL, control characters, symbols outside the grammar, BOM, zero-width space, non-ASCII letters) alone on a line at every line boundary of three valid programs - these must end in a diagnostic, never in an image. (h) every sequence of up to 4 (thorough: 5) statements over {.blkw xFFFF, x8000, x7FFF, x1, x0, .stringz of 2 and of 32,768 words, .fill, an instruction} whose sizes add up to 65,535 words or more: the capacity of the address space crossed by every kind of statement after every other. Oracle: no panic in lex/parse/backpatch/emit/render under debug assertions + overflow checks (and release in thorough); every diagnostic label span denotes a substring of the source (in bounds, on character boundaries); the diagnostic is non-empty. \
         Non-trivial: at least one mutation changed the text and it contains a token. Distinct = hash(text, flag)."
    }
    fn assumptions(&self) -> Vec<String> {
        vec![
            "Only valid UTF-8 is offered (main reads sources with read_to_string)".into(),
            "Termination is a function-call return; the only input-unbounded loop (.blkw expansion) is bounded by the 16-bit count; a wall-clock watchdog is infrastructure only".into(),
        ]
    }
    fn needs_cli(&self) -> bool {
        true
    }
    fn run_worker(&self, ctx: &Ctx, rep: &mut Report) {
        fixed_list(ctx, rep);
        char_positions(ctx, rep);
        numeric_positions(ctx, rep);
        junk_lines(ctx, rep);
        capacity_crossings(ctx, rep);
        let n = ctx.share(ctx.tier.pick(60_000, 800_000));
        drive(ctx, rep, "mutated", mutated_cases(), n, &mut |c: &Case| {
            let mut o = judge_case(c);
            o.label("mutated-program");
            o
        });
        let n = ctx.share(ctx.tier.pick(30_000, 400_000));
        drive(ctx, rep, "soup", soup_cases(), n, &mut |c: &Case| {
            let mut o = judge_case(c);
            o.label("token-soup");
            o
        });
        let n = ctx.share(ctx.tier.pick(10_000, 100_000));
        drive(ctx, rep, "strings", string_cases(), n, &mut |c: &Case| {
            let mut o = judge_case(c);
            o.label("arbitrary-string");
            o
        });
    }
    fn fuzz_strategy(&self) -> Option<BoxedStrategy<Value>> {
        Some(crate::fuzzmode::jv(crate::pick![3 => mutated_cases(), 2 => soup_cases(), 1 => string_cases()]))
    }
    fn replay(&self, _ctx: &Ctx, case: &Value) -> Obs {
        match serde_json::from_value::<Case>(case.clone()) {
            Ok(c) => judge_case(&c),
            Err(e) => Obs::fail("C05:bad-replay-file", format!("cannot parse case: {e}")),
        }
    }
}
