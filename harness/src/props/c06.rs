//! C06 — Object files round-trip and the loader rejects what it cannot load (process level).

use proptest::prelude::*;
use serde::{Deserialize, Serialize};
use serde_json::Value;

use super::c03::input_bytes;
use crate::cli::{self, TempDir};
use crate::engine::*;
use crate::proggen::{self, ProgSpec};
use crate::refasm::{self, Layout, Verdict};
use crate::refvm::{self, decode_out, match_out, Out, RunStop, Vm};

pub struct C06;

#[derive(Clone, Debug, Serialize, Deserialize)]
pub enum Case {
    Program { spec: ProgSpec, input: Vec<u8>, layout: Layout },
    File { bytes: Vec<u8>, obj_ext: bool },
}

const BUDGET: u64 = 20_000;

fn banner(left: &str, right: &str) -> String {
    format!("{left:>12} {right}\n")
}

pub fn expected_stdout(name: &str, rr: &refvm::RefRun) -> Vec<Out> {
    let mut v: Vec<Out> = Vec::new();
    let mut puts = |s: &str| v.extend(s.chars().map(|c| Out::Ch(c as u32)));
    puts(&banner("Assembling", &format!("target {name}")));
    puts(&banner("Running", "emitted binary"));
    let mut v2 = v;
    v2.extend(rr.out.iter().cloned());
    if rr.stop == RunStop::Normal {
        v2.extend(banner("Completed", &format!("target {name}")).chars().map(|c| Out::Ch(c as u32)));
    }
    v2
}

pub fn expected_code(stop: &RunStop) -> Option<i32> {
    match stop {
        RunStop::Normal => Some(0),
        RunStop::Exit(c) => Some(*c),
        _ => None,
    }
}

fn check_run(obs: &mut Obs, what: &str, name: &str, run: &cli::Run, rr: &refvm::RefRun, shown: &str) -> bool {
    if run.panicked() {
        obs.set_fail(format!("C06:{what}-crashes"), format!("`lace run {name}` crashed: {}\n{shown}", run.brief()));
        return false;
    }
    if run.code != expected_code(&rr.stop) {
        obs.set_fail(format!("C06:{what}-wrong-exit-status"), format!("`lace run {name}` exits with {:?}, the reference machine gives {:?}\n{}\n{shown}", run.code, expected_code(&rr.stop), run.brief()));
        return false;
    }
    let want = expected_stdout(name, rr);
    if let Err(at) = match_out(&want, &decode_out(&run.stdout)) {
        obs.set_fail(
            format!("C06:{what}-wrong-output"),
            format!("`lace run {name}` output differs at character {at}: got {:?}, expected {:?}\n{shown}", String::from_utf8_lossy(&run.stdout), refvm::out_to_string(&want)),
        );
        return false;
    }
    true
}

/// `text` with `size` bytes of comment lines in front of it (`front`) or between two of its lines.
fn pad_source(text: &str, front: bool, size: usize) -> String {
    let line = format!("; {}\n", "padding ".repeat(125));
    let pad = line.repeat(size / line.len() + 1);
    let at = if front { 0 } else { { let nl: Vec<usize> = text.match_indices('\n').map(|(i, _)| i + 1).collect(); nl.get(nl.len() / 2).copied().unwrap_or(0) } };
    format!("{}{}{}", &text[..at], pad, &text[at..])
}

pub fn judge_case(c: &Case) -> Obs {
    let mut obs = Obs::default();
    match c {
        Case::Program { spec, input, layout } => {
            let built = proggen::build(spec);
            let img = match refasm::judge(&built.program, built.stack) {
                Verdict::Accept(img) => img,
                Verdict::Reject(w) | Verdict::Unspecified(w) | Verdict::Either(_, w) => {
                    obs.excluded = Some(w);
                    return obs;
                }
            };
            let orig = img.orig.unwrap_or(0x3000);
            if orig as usize + img.words.len() + 1 > 0x10000 {
                obs.excluded = Some("image does not fit");
                return obs;
            }
            let text = refasm::render(&built.program, *layout).text;
            let shown = format!("input {input:?} stack={}\n{text}", built.stack);
            obs.show = Some(shown.clone());
            obs.key = hash_of(&(&text, input));
            // one source in twelve is a large file: comment lines (1,000 characters each, so that
            // neither line numbers nor columns grow large) carry it past 64 KiB, 1 MiB, 4 MiB or
            // 8 MiB - in front of the program, or between two of its lines - and every statement
            // behind them must still reach the image (the shown text stays the unpadded one)
            let text = if (obs.key >> 33) % 12 == 0 {
                let size = [70usize << 10, 1100 << 10, 4300 << 10, 8500 << 10][((obs.key >> 40) % 4) as usize];
                obs.label("source-file-padded-past-a-size-threshold");
                pad_source(&text, layout.style >= 3 || (obs.key >> 43) % 2 == 0, size)
            } else {
                text
            };
            let dir = TempDir::new();
            // how the files are called must not matter; a third of the compiles use the default
            // destination (<source stem>.lc3 in the working directory)
            let stem = cli::stem(obs.key >> 20);
            let default_dest = (obs.key >> 12) % 3 == 0;
            let src_name: &str = &format!("{stem}.asm");
            let obj_name: &str = &format!("{stem}.lc3");
            if stem != "prog" {
                obs.label("unusual-file-name");
            }
            if default_dest {
                obs.label("default-destination");
            }
            dir.write(src_name, text.as_bytes());
            let feat: Vec<&str> = if built.stack { vec!["-f", "stack"] } else { vec![] };
            // the destination may already hold the output of an earlier compile: unrelated bytes, the
            // object file of a longer / shorter version of this program, or this very image
            let mut image = orig.to_be_bytes().to_vec();
            for w in &img.words {
                image.extend(w.to_be_bytes());
            }
            match obs.key % 8 {
                0 | 1 => {
                    let stale: Vec<u8> = (0..(2 * img.words.len() + 2 + 64 + (obs.key % 7) as usize)).map(|i| (i * 7 + 3) as u8).collect();
                    dir.write(obj_name, &stale);
                    obs.label("destination-held-an-older-longer-file");
                }
                2 => {
                    let mut stale = image.clone();
                    stale.extend((0..(2 + 2 * ((obs.key >> 8) % 12) as usize)).map(|i| [0xF0u8, 0x21, 0x00, 0x00, 0xF0, 0x25][i % 6]));
                    dir.write(obj_name, &stale);
                    obs.label("destination-held-a-longer-version-of-this-program");
                }
                3 => {
                    dir.write(obj_name, &image[..(image.len() / 4) * 2]);
                    obs.label("destination-held-a-prefix-of-this-image");
                }
                4 => {
                    dir.write(obj_name, &image);
                    obs.label("destination-held-this-image");
                }
                _ => {}
            }
            let mut args = vec!["compile", src_name];
            if !default_dest {
                args.push(obj_name);
            }
            args.extend(&feat);
            let comp = cli::lace(&args, dir.path(), &[], false, 30);
            if !comp.ok() {
                obs.set_fail("C06:valid-program-not-compiled", format!("{}\n{shown}", comp.brief()));
                return obs;
            }
            let mut want = orig.to_be_bytes().to_vec();
            for w in &img.words {
                want.extend(w.to_be_bytes());
            }
            let got = std::fs::read(dir.path().join(obj_name)).unwrap_or_default();
            if got != want {
                let sig = if got.len() != want.len() { "C06:object-file-wrong-length" } else { "C06:object-file-wrong-bytes" };
                let at = got.iter().zip(&want).position(|(a, b)| a != b);
                obs.set_fail(
                    sig,
                    format!("prog.lc3 has {} bytes, expected 2(n+1) = {} (origin x{orig:04X}, {} words); first difference at byte {at:?}\n{shown}", got.len(), want.len(), img.words.len()),
                );
                return obs;
            }
            if img.orig.is_none() {
                obs.label("no-orig-in-source");
            } else if orig != 0x3000 {
                obs.label("non-default-origin");
            }
            // behaviour: run the source and run the object file
            let rr = refvm::run(Vm::load(orig, &img.words, built.stack), input, BUDGET, Some(0xFFFD));
            match &rr.stop {
                RunStop::OutOfFuel => {
                    obs.excluded = Some("program does not terminate within the budget");
                    return obs;
                }
                RunStop::Unspecified("rti") => {
                    obs.excluded = Some("rti");
                    return obs;
                }
                _ => {}
            }
            let minimal = rr.executed_reg_trap;
            if minimal && rr.printed_escape {
                obs.excluded = Some("REG and ESC in one run");
                return obs;
            }
            let run_args = |file| -> Vec<&str> {
                let mut a: Vec<&str> = vec!["run", file];
                if minimal {
                    a.push("--minimal");
                }
                a.extend(&feat);
                a
            };
            let ra = cli::lace(&run_args(src_name), dir.path(), input, false, 60);
            let rb = cli::lace(&run_args(obj_name), dir.path(), input, false, 60);
            if ra.timed_out || rb.timed_out {
                obs.excluded = Some("watchdog");
                return obs;
            }
            // the two must agree with each other ...
            let strip = |out: &[u8], name: &str| -> Vec<u8> {
                let s = String::from_utf8_lossy(out).to_string();
                s.replace(&banner("Assembling", &format!("target {name}")), "").replace(&banner("Completed", &format!("target {name}")), "").into_bytes()
            };
            if ra.code != rb.code || strip(&ra.stdout, src_name) != strip(&rb.stdout, obj_name) {
                obs.set_fail(
                    "C06:object-file-behaves-differently",
                    format!("running the source: {}\nrunning the object file: {}\n{shown}", ra.brief(), rb.brief()),
                );
                return obs;
            }
            // ... and with the reference machine
            let unspecified = matches!(rr.stop, RunStop::Unspecified(_)) || input.iter().take(rr.consumed).any(|b| *b >= 0x80);
            if unspecified {
                obs.label("reference-unspecified-only-equivalence-checked");
            } else if check_run(&mut obs, "source-run", src_name, &ra, &rr, &shown) {
                check_run(&mut obs, "object-run", obj_name, &rb, &rr, &shown);
            }
            let prints = rr.out.iter().any(|o| matches!(o, Out::Ch(_))) && rr.features.trap_output;
            let has_label = !img.labels.is_empty();
            obs.nontrivial = prints && (orig != 0x3000 || img.orig.is_none() || has_label);
        }
        Case::File { bytes, obj_ext } => {
            obs.key = hash_of(&(bytes, obj_ext));
            let n_words = bytes.len() / 2;
            let first = if bytes.len() >= 2 { Some(u16::from_be_bytes([bytes[0], bytes[1]])) } else { None };
            obs.show = Some(format!("{} bytes, first word {:?}, ext {}", bytes.len(), first.map(|w| format!("x{w:04X}")), if *obj_ext { "obj" } else { "lc3" }));
            let accept = bytes.len() % 2 == 0 && bytes.len() >= 2 && first.unwrap() as usize + (n_words - 1) + 1 <= 0x10000;
            // near a loader limit?
            obs.nontrivial = bytes.len() <= 4 || bytes.len() % 2 == 1 || first.map(|o| (o as i64 + n_words as i64 - 0x10000).abs() <= 2).unwrap_or(true);
            let name = if *obj_ext { "img.obj" } else { "img.lc3" };
            let dir = TempDir::new();
            // a quarter of the (not too large) files are delivered through a named pipe of that name:
            // same bytes, but `stat` reports length 0
            let through_pipe = obs.key % 4 == 0 && bytes.len() <= 60_000;
            let run = if through_pipe {
                obs.label("delivered-through-a-named-pipe");
                cli::lace_fifo(&["run", name], dir.path(), name, bytes, false, 60)
            } else {
                dir.write(name, bytes);
                cli::lace(&["run", name], dir.path(), &[], false, 60)
            };
            if run.timed_out {
                obs.excluded = Some("watchdog");
                return obs;
            }
            if accept {
                obs.label("file-must-load");
                let words: Vec<u16> = bytes[2..].chunks(2).map(|c| u16::from_be_bytes([c[0], c[1]])).collect();
                let rr = refvm::run(Vm::load(first.unwrap(), &words, false), &[], BUDGET, Some(0xFFFD));
                if matches!(rr.stop, RunStop::OutOfFuel | RunStop::Unspecified(_)) || rr.executed_reg_trap {
                    obs.excluded = Some("body does not terminate / unspecified");
                    return obs;
                }
                let shown = obs.show.clone().unwrap_or_default();
                check_run(&mut obs, "loaded-file", name, &run, &rr, &shown);
            } else {
                obs.label("file-must-be-rejected");
                if run.ok() {
                    obs.set_fail("C06:unloadable-file-accepted", format!("the file cannot be loaded (length / alignment / size), yet `lace run` exits 0\n{}", run.brief()));
                } else if !run.clean_error() {
                    obs.set_fail("C06:loader-crashes", format!("an unloadable file must be rejected with an error exit, not a crash\n{}", run.brief()));
                } else if String::from_utf8_lossy(&run.stdout).contains("Running") {
                    obs.set_fail("C06:unloadable-file-run", format!("the file cannot be loaded, yet it was run\n{}", run.brief()));
                }
            }
        }
    }
    obs
}

fn file_cases() -> impl Strategy<Value = Case> {
    let halt = [0xF0u8, 0x25];
    crate::pick![
        // tiny and odd files
        3 => (prop::collection::vec(any::<u8>(), 0..8), any::<bool>()).prop_map(|(bytes, obj_ext)| Case::File { bytes, obj_ext }),
        // origin only
        2 => (prop::sample::select(vec![0u16, 0x3000, 0xFDFF, 0xFE00, 0xFFFE, 0xFFFF, 0x8000]), any::<bool>()).prop_map(|(o, obj_ext)| Case::File { bytes: o.to_be_bytes().to_vec(), obj_ext }),
        // images that end exactly at / below / above the top of memory
        5 => (1usize..300, -2i64..3, any::<bool>(), any::<bool>()).prop_map(move |(n, d, odd, obj_ext)| {
            let orig = (0x10000i64 - n as i64 - 1 + d).clamp(0, 0xFFFF) as u16;
            let mut bytes = orig.to_be_bytes().to_vec();
            for _ in 0..n {
                bytes.extend(halt);
            }
            if odd {
                bytes.push(0);
            }
            Case::File { bytes, obj_ext }
        }),
        // ordinary images with a HALT first
        3 => (any::<u16>(), prop::collection::vec(any::<u16>(), 0..40), any::<bool>(), any::<bool>()).prop_map(move |(orig, words, odd, obj_ext)| {
            let mut bytes = orig.to_be_bytes().to_vec();
            bytes.extend(halt);
            for w in words {
                bytes.extend(w.to_be_bytes());
            }
            if odd {
                bytes.pop();
            }
            Case::File { bytes, obj_ext }
        }),
        // object files whose bytes spell something a tool might sniff: assembler source, a shebang,
        // byte order marks, other formats' magic numbers - padded to an even length or not; to
        // the loader they are an origin and words like any others
        3 => (
            prop::sample::select(vec![
                &b".orig x3000\nhalt\n.end\n"[..], b".ORIG x3000\n", b".orig", b".Orig x2E6F\nstr r1,r1,#-23\n", b"; a comment\nhalt\n", b"#!/usr/bin/lace\n", b"add r0 r0 #1\nhalt\n",
                b"\xEF\xBB\xBF.orig x3000\n", b"\xFF\xFE.\0o\0", b"\x7fELF\x02\x01\x01\0", b"PK\x03\x04", b"<!DOCTYPE html>", b"MZ\x90\0", b"\x1f\x8b\x08\0", b"halt", b".end\n", b"lc3\0\x30\0",
            ]),
            0usize..3,
            any::<bool>(),
        )
            .prop_map(move |(text, pad, obj_ext)| {
                let mut bytes = text.to_vec();
                for _ in 0..pad {
                    bytes.extend(halt);
                }
                Case::File { bytes, obj_ext }
            }),
        // very large images
        1 => (0u16..4, 65000usize..65540).prop_map(move |(orig, n)| {
            let mut bytes = orig.to_be_bytes().to_vec();
            for _ in 0..n {
                bytes.extend(halt);
            }
            Case::File { bytes, obj_ext: false }
        }),
    ]
}

impl Prop for C06 {
    fn id(&self) -> &'static str {
        "C06"
    }
    fn needs_cli(&self) -> bool {
        true
    }
    fn rule(&self) -> &'static str {
        "(a) ProgGen programs (terminating, with output, optional input, origins incl. none) through the real binary: `lace compile` (over an absent destination, an older longer file, the object file of a longer version of the same program - the new image followed by further words -, a prefix of the new image, or the image itself) must exit 0 and leave exactly 2(n+1) bytes = big-endian origin (0x3000 without .orig) ++ RefAsm's words; `lace run prog.lc3` and `lace run prog.asm` (same flags, same stdin) must give the same exit status and the same stdout modulo the `target <name>` banner lines, and both must equal RefVM (exit status, banner lines, program output character for character). \
         (b) byte strings offered as .lc3 / .obj (a quarter of them through a named pipe of that name, whose `stat` length is 0): empty, 1 byte, odd lengths, origin only (incl. 0xFFFF, 0xFE00), images ending exactly at / one or two below / above 0x10000, ordinary images, files whose bytes spell assembler source, a shebang, byte order marks or other formats' magic numbers, 65,000-65,540-word images, and an enumerated grid of file sizes 131,070..262,145 bytes x origins {0,1,2,0x3000}: accepted <=> even length >= 2 and origin + n + 1 <= 0x10000; accepted files behave as RefVM says; rejected ones exit non-zero with a status other than 101, no signal, no panic message, and are not run. \
         Non-trivial: the program prints and has a label or a non-default / absent origin; or the file is within 2 words of a loader limit, odd or tiny. Distinct = hash(file bytes / source + input)."
    }
    fn assumptions(&self) -> Vec<String> {
        vec![
            "NO_COLOR is set for the children; a 60 s watchdog is infrastructure only (excluded, never a verdict)".into(),
            "runs reaching unspecified behaviour (end of input, non-ASCII input, malformed strings) are only checked for source/object equivalence".into(),
        ]
    }
    fn profiles(&self, _tier: Tier) -> Vec<&'static str> {
        vec!["A"]
    }
    fn run_worker(&self, ctx: &Ctx, rep: &mut Report) {
        // every judged case spawns processes: keep shrinking short
        std::env::set_var("VERIF_MAX_SHRINK", "40");
        let n = ctx.share(ctx.tier.pick(320, 4000));
        let progs = (proggen::prog_spec(24), input_bytes(), crate::gen::layout()).prop_map(|(spec, input, layout)| Case::Program { spec, input, layout });
        drive(ctx, rep, "programs", progs, n, &mut |c: &Case| {
            let mut o = judge_case(c);
            o.label("program-round-trip");
            o
        });
        let n = ctx.share(ctx.tier.pick(700, 8000));
        drive(ctx, rep, "files", file_cases(), n, &mut |c: &Case| judge_case(c));
        // deterministic: files at and just above the largest loadable size (0x10000 words incl. the
        // origin word = 131,072 bytes), for the origins at which that size is / is not loadable
        let mut k = 0u64;
        for len in [131_070usize, 131_071, 131_072, 131_073, 131_074, 131_076, 131_080, 140_000, 196_608, 262_144, 262_145] {
            for orig in [0u16, 1, 2, 0x3000] {
                for obj_ext in [false, true] {
                    k += 1;
                    if !ctx.mine(k) || (obj_ext && len > 131_080) {
                        continue;
                    }
                    let mut bytes = orig.to_be_bytes().to_vec();
                    while bytes.len() + 1 < len {
                        bytes.extend([0xF0u8, 0x25]);
                    }
                    if bytes.len() < len {
                        bytes.push(0xF0);
                    }
                    judge_one(ctx, rep, &Case::File { bytes, obj_ext }, &mut |c| {
                        let mut o = judge_case(c);
                        o.label("file-around-128KiB");
                        o
                    });
                }
            }
        }
    }
    fn replay(&self, _ctx: &Ctx, case: &Value) -> Obs {
        match serde_json::from_value::<Case>(case.clone()) {
            Ok(c) => judge_case(&c),
            Err(e) => Obs::fail("C06:bad-replay-file", format!("cannot parse case: {e}")),
        }
    }
}
