//! C07 — check, compile and run agree on which sources are valid (differential across the CLI's
//! entry points, real binary; `watch` driven through plain rewrites of the file).

use std::io::Read;
use std::process::{Command, Stdio};

use proptest::prelude::*;
use serde::{Deserialize, Serialize};
use serde_json::Value;

use crate::cli::{self, TempDir};
use crate::engine::*;
use crate::proggen::{self, ProgSpec};
use crate::refasm::{self, Body, Layout, Line, Lit, Op, Operand, Stmt, Verdict};
use crate::refvm::{self, RunStop, Vm};

pub struct C07;

#[derive(Clone, Copy, Debug, Serialize, Deserialize, PartialEq, Eq, Hash)]
pub enum Inject {
    None,
    Lexical,
    OperandKind,
    LiteralRange,
    DuplicateLabel,
    UndefinedLabel,
    RepeatedOrig,
    /// label out of reach at statement position `.0`, with PC-relative form `.1`
    OutOfReach(u8, u8),
    /// backward reference from the last statement to the first in a program of a targeted total
    /// size right at the reach of the field (selector, form)
    BackwardAtSize(u8, u8),
    /// valid program placed so high that the image ends around the top of memory (selector)
    HighOrigin(u8),
    /// the file holds bytes that are not UTF-8 (a lone Latin-1 byte, a truncated sequence, 0xFF):
    /// in a comment, in a string literal, as a token of its own, in a label (selector)
    InvalidUtf8(u8),
    /// the file begins with, contains at the start of a line, or ends with a byte sequence that
    /// tools tend to treat specially (byte order marks, `#!`, escape introducers, CR LF, end-of-input
    /// controls, blank look-alikes): whatever lace makes of it, all entry points make the same (selector)
    Signature(u8),
}

#[derive(Clone, Debug, Serialize, Deserialize)]
pub enum Case {
    Source { spec: ProgSpec, inject: Inject, stack_flag: bool },
    /// successive contents of the watched file; `events[k]` says how content k reaches the disk
    /// (bits 1:0: 0 rewrite in place, 1 remove then create, 2 write a temporary file and rename it
    /// over, 3 truncate then write in two steps) and what else happens in the folder just before
    /// (bit 2: another file is created, bit 3: another file is removed, bit 4: another .asm file
    /// is written); bit 5: the file keeps the modification time it had before (what `cp -p`,
    /// `rsync -t` or unpacking an archive do); absent entries mean 0
    Watch {
        contents: Vec<String>,
        #[serde(default)]
        events: Vec<u8>,
    },
}

fn pcrel_form(k: u8) -> (Op, Vec<u8>) {
    let forms: Vec<(Op, Vec<u8>)> = vec![
        (Op::Br(7, false), vec![]),
        (Op::Br(2, true), vec![]),
        (Op::Ld, vec![1]),
        (Op::Ldi, vec![2]),
        (Op::Lea, vec![3]),
        (Op::St, vec![4]),
        (Op::Sti, vec![5]),
        (Op::Jsr, vec![]),
        (Op::Call, vec![]),
    ];
    forms[k as usize % forms.len()].clone()
}

/// The bytes of the source file: the text, with the placeholder of `Inject::InvalidUtf8` replaced
/// by bytes that are not UTF-8.
fn file_bytes(text: &str, inject: Inject) -> Vec<u8> {
    if let Inject::Signature(sel) = inject {
        let sig = crate::gen::STREAM_SIGNATURES[(sel as usize / 3) % crate::gen::STREAM_SIGNATURES.len()];
        let t = text.as_bytes();
        return match sel % 3 {
            0 => [sig, t].concat(),
            1 => {
                let at = t.iter().position(|b| *b == b'\n').map(|i| i + 1).unwrap_or(t.len());
                [&t[..at], sig, &t[at..]].concat()
            }
            _ => [t, sig].concat(),
        };
    }
    let Inject::InvalidUtf8(sel) = inject else { return text.as_bytes().to_vec() };
    let raw: &[u8] = [&[0xE9u8][..], &[0xC3], &[0xFF], &[0xE2, 0x82], &[0xED, 0xA0, 0x80], &[0x80]][(sel as usize / 4) % 6];
    let mut out = Vec::new();
    let placeholder = "\u{E000}".as_bytes();
    let bytes = text.as_bytes();
    let mut i = 0;
    while i < bytes.len() {
        if bytes[i..].starts_with(placeholder) {
            out.extend_from_slice(raw);
            i += placeholder.len();
        } else {
            out.push(bytes[i]);
            i += 1;
        }
    }
    out
}

fn source_for(spec: &ProgSpec, inject: Inject) -> Option<(String, bool, bool, Option<refasm::RefImage>)> {
    // an injected statement goes behind the program: keep the image-fit padding (which fills the
    // address space) out of those cases, or label distances beyond 2^16 come into play (C04's
    // known finding, not this property's subject)
    let mut spec = spec.clone();
    if inject != Inject::None {
        spec.fit = 0;
    }
    let spec = &spec;
    let built = proggen::build(spec);
    let mut p = built.program.clone();
    let mut extra = String::new();
    match inject {
        Inject::None => {}
        Inject::Lexical => extra.push_str("@@@ $\n"),
        Inject::OperandKind => extra.push_str("add r0 r0\n"),
        Inject::LiteralRange => extra.push_str("add r0 r0 #99\n"),
        Inject::DuplicateLabel => extra.push_str("MAIN add r0 r0 r0\n"),
        Inject::UndefinedLabel => extra.push_str("br NOSUCHLABEL\n"),
        Inject::RepeatedOrig => extra.push_str(".orig x3000\n.orig x3000\n"),
        // (U+E000 stands for the raw bytes, which `file_bytes` puts in its place)
        Inject::InvalidUtf8(sel) => extra.push_str(match sel % 4 {
            0 => "halt ; caf\u{E000} au lait\n",
            1 => "LATIN .stringz \"na\u{E000}ve\"\n",
            2 => "\u{E000}\n",
            _ => "lbl\u{E000} halt\n",
        }),
        Inject::BackwardAtSize(..) | Inject::HighOrigin(_) | Inject::Signature(_) => {}
        Inject::OutOfReach(pos, form) => {
            let (op, regs) = pcrel_form(form);
            if op == Op::Call && !built.stack {
                return None;
            }
            let stmts: Vec<usize> = (0..p.lines.len()).filter(|i| matches!(p.lines[*i].body, Body::Stmt(_))).collect();
            let at = stmts.get(pos as usize % (stmts.len() + 1)).copied().unwrap_or(p.lines.len());
            // padding sized around the reach of the field: barely out of reach (small programs),
            // comfortably out of reach, and far away; sometimes barely in reach (then the source is
            // valid, which the reference decides)
            let reach = 1i32 << (op.pcrel_bits().unwrap() - 1);
            let pad = match (pos >> 4) % 6 {
                0 => reach,
                1 => reach + 1,
                2 => reach + 40,
                3 => 2 * reach - 10,
                4 => reach - 60,
                _ => 3000,
            };
            p.lines.insert(at, Line::stmt(None, Stmt::new(op, &regs, Operand::Label("FARAWAY".into()))));
            p.lines.push(Line::stmt(None, Stmt::new(Op::Blkw, &[], Operand::Lit(Lit::Dec(pad)))));
            p.lines.push(Line::stmt(Some("FARAWAY"), Stmt::simple(Op::Halt)));
        }
    }
    match inject {
        Inject::BackwardAtSize(sel, form) => {
            let (op, regs) = pcrel_form(form);
            if op == Op::Call && !built.stack {
                return None;
            }
            let reach = 1usize << (op.pcrel_bits().unwrap() - 1);
            let total = [reach - 1, reach, reach + 1, reach + 2, reach + 3, reach + 44][sel as usize % 6];
            p = refasm::with_backward_reference(&p, op, &regs, total)?;
        }
        Inject::HighOrigin(sel) => {
            let mut n = 0usize;
            for l in &p.lines {
                if let Body::Stmt(s) = &l.body {
                    n += s.size()?;
                }
            }
            // origin such that origin + n is 0x10000 - 2 ..= 0x10000 + 2 (the last fitting image
            // ends at 0xFFFE with the implicit HALT at 0xFFFF)
            let o = (0x10000i64 - n as i64 + (sel as i64 % 5) - 2).clamp(0, 0xFFFF) as u16;
            if matches!(p.lines.first().map(|l| &l.body), Some(Body::Orig(_))) {
                p.lines[0].body = Body::Orig(Lit::Hex(o, 0));
            } else {
                p.lines.insert(0, Line { label: None, body: Body::Orig(Lit::Hex(o, 0)) });
            }
        }
        _ => {}
    }
    let verdict = refasm::judge(&p, built.stack);
    let image = match &verdict {
        Verdict::Accept(img) if matches!(inject, Inject::None | Inject::OutOfReach(..) | Inject::BackwardAtSize(..) | Inject::HighOrigin(_) | Inject::Signature(_)) => Some(img.clone()),
        _ => None,
    };
    let valid = match (verdict, inject) {
        (Verdict::Accept(_), Inject::None | Inject::OutOfReach(..) | Inject::BackwardAtSize(..) | Inject::HighOrigin(_) | Inject::Signature(_)) => true,
        (Verdict::Reject("label out of reach"), Inject::OutOfReach(..) | Inject::BackwardAtSize(..)) => false,
        (Verdict::Accept(_), _) => false, // the error is in the appended text
        _ => return None,
    };
    let mut text = refasm::render(&p, Layout::CANON).text;
    text.push_str(&extra);
    let uses_stack = p.lines.iter().any(|l| matches!(&l.body, Body::Stmt(s) if s.op.is_stack()));
    Some((text, valid, uses_stack, image))
}

pub fn judge_case(c: &Case) -> Obs {
    match c {
        Case::Source { spec, inject, stack_flag } => judge_source(spec, *inject, *stack_flag),
        Case::Watch { contents, events } => judge_watch(contents, events),
    }
}

fn judge_source(spec: &ProgSpec, inject: Inject, stack_flag: bool) -> Obs {
    let mut obs = Obs::default();
    let Some((text, valid, uses_stack, image)) = source_for(spec, inject) else {
        obs.excluded = Some("generator: program not as intended");
        return obs;
    };
    obs.key = hash_of(&(&text, stack_flag));
    let shown = format!("inject={inject:?} -f stack: {stack_flag}, uses stack mnemonics: {uses_stack}\n{text}");
    obs.show = Some(shown.clone());
    obs.nontrivial = matches!(inject, Inject::OutOfReach(..) | Inject::BackwardAtSize(..) | Inject::HighOrigin(_) | Inject::InvalidUtf8(_) | Inject::Signature(_)) || uses_stack;
    obs.label(match inject {
        Inject::None => "source-valid",
        Inject::HighOrigin(_) => "image-ends-around-top-of-memory",
        Inject::InvalidUtf8(_) => "file-is-not-utf8",
        Inject::Signature(_) => "file-with-stream-signature",
        Inject::OutOfReach(..) | Inject::BackwardAtSize(..) if valid => "reference-barely-in-reach",
        Inject::OutOfReach(..) | Inject::BackwardAtSize(..) => "error-only-at-emission",
        _ => "error-before-emission",
    });
    if uses_stack {
        obs.label("uses-stack-mnemonics");
    }
    // will the program terminate if it is run? (only valid programs are run to completion)
    let terminates = match &image {
        Some(img) => {
            let orig = img.orig.unwrap_or(0x3000);
            orig as usize + img.words.len() + 1 <= 0x10000
                && !matches!(refvm::run(Vm::load(orig, &img.words, stack_flag), &[], 20_000, Some(0xFFFD)).stop, RunStop::OutOfFuel | RunStop::Unspecified("rti"))
                || orig as usize + img.words.len() + 1 > 0x10000
        }
        None => false,
    };
    let fits = image.as_ref().map(|img| img.orig.unwrap_or(0x3000) as usize + img.words.len() + 1 <= 0x10000).unwrap_or(true);
    if valid && fits && !terminates {
        obs.excluded = Some("program would not terminate when run");
        return obs;
    }
    let dir = TempDir::new();
    // how the file is called must not matter
    let stem = cli::stem(obs.key >> 24);
    let src: &str = &format!("{stem}.asm");
    if stem != "prog" {
        obs.label("unusual-file-name");
    }
    dir.write(src, &file_bytes(&text, inject));
    // a third of the time an object file of an unrelated program already sits beside the source,
    // under the name a default compile would give it, and is at least as new as the source: it is
    // not the source, and no entry point may take it for the source
    if (obs.key >> 9) % 3 == 0 {
        dir.write(&format!("{stem}.lc3"), &[0x30, 0x00, 0xF0, 0x25]);
        dir.write(&format!("{stem}.obj"), &[0x30, 0x00, 0xF0, 0x25]);
        obs.label("unrelated-object-file-beside-the-source");
    }
    // the three documented spellings of the flag
    let feat: Vec<&str> = if stack_flag {
        match obs.key % 3 {
            0 => vec!["--features", "stack"],
            1 => vec!["-f", "stack"],
            _ => vec!["--features=stack"],
        }
    } else {
        vec![]
    };
    let check = cli::lace(&["check", src], dir.path(), &[], false, 30);
    let mut a = vec!["compile", src, "out.lc3"];
    a.extend(&feat);
    let compile = cli::lace(&a, dir.path(), &[], false, 30);
    let mut a = vec!["run", src];
    a.extend(&feat);
    let run = cli::lace(&a, dir.path(), &[], false, 60);
    // `lace <file>` (no sub-command) is the quick way to run: it must behave like `run`
    let mut a = vec![src];
    a.extend(&feat);
    let bare = cli::lace(&a, dir.path(), &[], false, 60);
    if check.timed_out || compile.timed_out || run.timed_out || bare.timed_out {
        obs.excluded = Some("watchdog");
        return obs;
    }
    let run_assembled = String::from_utf8_lossy(&run.stdout).contains("Running emitted binary");
    let all = format!("check:   {}\ncompile: {}\nrun:     {}\n{shown}", check.brief(), compile.brief(), run.brief());
    // an image that assembles but does not fit below 0x10000 is refused by the loader, not by the
    // assembler: `run` must then stop with the loader's error exit, and is left out of the agreement
    if valid && !fits {
        obs.label("image-does-not-fit-in-memory");
        if run.panicked() || run.ok() {
            obs.set_fail("C07:unloadable-image-not-refused-cleanly", all.clone());
        } else if check.panicked() || compile.panicked() || (!stack_flag && check.ok() != compile.ok()) {
            obs.set_fail(if check.ok() { "C07:check-succeeds-but-compile-fails" } else { "C07:check-fails-but-compile-succeeds" }, all.clone());
        }
        return obs;
    }
    // compile and run take the same flags: they must agree on whether the source assembles
    if bare.code != run.code || String::from_utf8_lossy(&bare.stdout).contains("Running emitted binary") != run_assembled {
        obs.set_fail("C07:bare-invocation-differs-from-run", format!("`lace f.asm`: {}\n{all}", bare.brief()));
    } else if compile.panicked() {
        obs.set_fail("C07:compile-crashes", all.clone());
    } else if !compile.ok() && run_assembled {
        obs.set_fail("C07:run-accepts-what-compile-rejects", all.clone());
    } else if compile.ok() && !run_assembled {
        obs.set_fail("C07:run-rejects-what-compile-accepts", all.clone());
    } else if !compile.ok() && !run.clean_error() {
        obs.set_fail("C07:run-does-not-report-error", format!("compile rejects the source, so run must report an error (not crash, not succeed)\n{all}"));
    }
    // check takes no feature flags: it speaks for the default setting
    if !stack_flag {
        if check.ok() && !compile.ok() {
            obs.set_fail("C07:check-succeeds-but-compile-fails", all.clone());
        } else if !compile.ok() && !check.clean_error() {
            obs.set_fail("C07:check-does-not-report-error", format!("compile rejects the source, so check must report an error (a crash is not a report)\n{all}"));
        } else if compile.ok() && !check.ok() {
            obs.set_fail("C07:check-fails-but-compile-succeeds", all.clone());
        }
    } else if check.panicked() {
        obs.set_fail("C07:check-crashes", format!("check must report, not crash\n{all}"));
    } else if check.ok() && !compile.ok() && !uses_stack {
        obs.set_fail("C07:check-succeeds-but-compile-fails", all);
    }
    obs
}

// ---------------------------------------------------------------------------------------------
// watch

#[derive(Debug, PartialEq, Eq, Clone, Copy)]
enum Verdict3 {
    Success,
    Error,
    Crash,
}

fn read_file(p: &std::path::Path) -> String {
    let mut s = String::new();
    if let Ok(mut f) = std::fs::File::open(p) {
        let _ = f.read_to_string(&mut s);
    }
    s
}

fn judge_watch(contents: &[String], events: &[u8]) -> Obs {
    let mut obs = Obs::default();
    obs.key = hash_of(&(contents, events));
    obs.nontrivial = true;
    obs.label("watch-scenario");
    let clipped = |c: &String| if c.len() > 600 { format!("{} ... ({} lines, {} bytes)", &c[..(0..=400).rev().find(|i| c.is_char_boundary(*i)).unwrap_or(0)], c.lines().count(), c.len()) } else { c.clone() };
    obs.show = Some(format!("watch scenario with {} rewrites (events {events:?}):\n{}", contents.len(), contents.iter().map(|c| format!("---\n{}", clipped(c))).collect::<Vec<_>>().join("\n")));
    if contents.iter().any(|c| c.lines().count() > 3000) {
        obs.label("watch-version-with-thousands-of-labels");
    }
    if events.iter().any(|e| e & 3 != 0) {
        obs.label("watch-remove-or-rename-saves");
    }
    if events.iter().any(|e| e & 0x1C != 0) {
        obs.label("watch-other-files-change");
    }
    let watched = TempDir::new();
    let logs = TempDir::new();
    watched.write("f.asm", b"halt\n");
    let out_path = logs.path().join("stdout.txt");
    let err_path = logs.path().join("stderr.txt");
    let child = Command::new(cli::lace_bin(false))
        .args(["watch", "f.asm"])
        .current_dir(watched.path())
        .env("NO_COLOR", "1")
        .env("RUST_BACKTRACE", "0")
        .stdin(Stdio::null())
        .stdout(std::fs::File::create(&out_path).unwrap())
        .stderr(std::fs::File::create(&err_path).unwrap())
        .spawn();
    let Ok(mut child) = child else {
        obs.excluded = Some("could not start lace watch");
        return obs;
    };
    let wait_for = |pred: &dyn Fn(&str, &str) -> bool, secs: u64| -> bool {
        let t0 = std::time::Instant::now();
        while t0.elapsed().as_secs() < secs {
            if pred(&read_file(&out_path), &read_file(&err_path)) {
                return true;
            }
            std::thread::sleep(std::time::Duration::from_millis(40));
        }
        false
    };
    let mut inconclusive = false;
    if !wait_for(&|o, _| o.contains("press CTRL+C"), 10) {
        inconclusive = true;
    }
    std::thread::sleep(std::time::Duration::from_millis(400));
    for (k, content) in contents.iter().enumerate() {
        if inconclusive {
            break;
        }
        let ev = events.get(k).copied().unwrap_or(0);
        let target = watched.path().join("f.asm");
        // something else happens in the folder first; the watcher may re-check the old content
        if ev & 0x1C != 0 {
            if ev & 4 != 0 {
                let _ = std::fs::write(watched.path().join("other.txt"), b"scratch\n");
            }
            if ev & 8 != 0 {
                let other = watched.path().join("other.txt");
                if !other.exists() {
                    let _ = std::fs::write(&other, b"scratch\n");
                    std::thread::sleep(std::time::Duration::from_millis(900));
                }
                let _ = std::fs::remove_file(&other);
            }
            if ev & 16 != 0 {
                let _ = std::fs::write(watched.path().join("g.asm"), b"start halt\nmsg .fill x1\n");
            }
            // the watcher debounces for 500 ms: let it finish whatever these events made it re-check
            std::thread::sleep(std::time::Duration::from_millis(1600));
        }
        let mark_out = read_file(&out_path).len();
        let mark_err = read_file(&err_path).len();
        let old_meta = std::fs::metadata(&target).ok();
        let old_mtime = old_meta.as_ref().and_then(|m| m.modified().ok());
        let old_len = old_meta.as_ref().map(|m| m.len());
        match ev & 3 {
            0 => std::fs::write(&target, content).unwrap(),
            1 => {
                let _ = std::fs::remove_file(&target);
                std::thread::sleep(std::time::Duration::from_millis(30));
                std::fs::write(&target, content).unwrap();
            }
            2 => {
                let tmp = watched.path().join(".f.asm.tmp");
                std::fs::write(&tmp, content).unwrap();
                std::fs::rename(&tmp, &target).unwrap();
            }
            _ => {
                use std::io::Write;
                let mut f = std::fs::File::create(&target).unwrap();
                let half = (0..=content.len() / 2).rev().find(|i| content.is_char_boundary(*i)).unwrap_or(0);
                let _ = f.write_all(content[..half].as_bytes());
                let _ = f.flush();
                let _ = f.write_all(content[half..].as_bytes());
            }
        }
        if ev & 0x20 != 0 {
            if let (Some(t), Ok(f)) = (old_mtime, std::fs::File::options().write(true).open(&target)) {
                let _ = f.set_modified(t);
                obs.label(if old_len == Some(content.len() as u64) { "watch-same-length-same-modification-time" } else { "watch-modification-time-preserved" });
            }
        }
        // expected verdict: what `lace check` says about the same content
        let cdir = TempDir::new();
        cdir.write("f.asm", content.as_bytes());
        let check = cli::lace(&["check", "f.asm"], cdir.path(), &[], false, 30);
        let want = if check.ok() { Verdict3::Success } else if check.clean_error() { Verdict3::Error } else { Verdict3::Crash };
        let got_verdict = |o: &str, e: &str| -> Option<Verdict3> {
            let o = &o[mark_out.min(o.len())..];
            // classify the LAST re-check block: a stale event for the previous content may come first
            let o = match o.rfind("Re-checking") {
                Some(i) => &o[i..],
                None => return None,
            };
            let e = &e[mark_err.min(e.len())..];
            if e.contains("panicked at") {
                Some(Verdict3::Crash)
            } else if o.contains("no errors found") {
                Some(Verdict3::Success)
            } else if o.contains('×') || o.contains("Error") || o.contains("help:") || o.contains(" x ") {
                Some(Verdict3::Error)
            } else {
                None
            }
        };
        if ev & 3 == 2 && !wait_for(&|o, e| got_verdict(o, e).is_some(), 5) {
            // a save by rename-over often reaches the watcher as Create / Rename events only, which
            // it ignores: there is no re-check to compare (the property speaks of the re-checks
            // that happen); go on with the next content
            obs.label("watch-rename-save-not-rechecked");
            continue;
        }
        if !wait_for(&|o, e| got_verdict(o, e).is_some(), 15) {
            inconclusive = true;
            let o = read_file(&out_path);
            let e = read_file(&err_path);
            let alive = matches!(child.try_wait(), Ok(None));
            crate::lacebox::log(&format!(
                "C07 watch: no verdict for content #{k} (event code {ev}, watcher alive: {alive}); stdout since the save: {:?}; stderr tail: {:?}",
                o[mark_out.min(o.len())..].chars().take(300).collect::<String>(),
                e.chars().rev().take(200).collect::<String>().chars().rev().collect::<String>()
            ));
            break;
        }
        // let the debounced burst settle (no output for a second), then read the last verdict
        let mut last_len = 0;
        for _ in 0..8 {
            std::thread::sleep(std::time::Duration::from_millis(1000));
            let len = read_file(&out_path).len() + read_file(&err_path).len();
            if len == last_len {
                break;
            }
            last_len = len;
        }
        let got = got_verdict(&read_file(&out_path), &read_file(&err_path)).unwrap();
        let o = read_file(&out_path);
        let tail = &o[mark_out.min(o.len())..];
        if got != want && want != Verdict3::Crash {
            let sig = match (want, got) {
                (Verdict3::Success, Verdict3::Error) => "C07:watch-reports-error-where-check-succeeds",
                (Verdict3::Error, Verdict3::Success) => "C07:watch-succeeds-where-check-reports-error",
                (_, Verdict3::Crash) => "C07:watch-crashes",
                _ => "C07:watch-disagrees-with-check",
            };
            obs.set_fail(
                sig,
                format!(
                    "re-check #{k}: `lace check` on the same content says {want:?} ({}), the watcher printed {got:?}:\n{}\n--- watcher stderr ---\n{}\n--- content ---\n{}",
                    check.brief(),
                    tail.chars().take(1500).collect::<String>(),
                    read_file(&err_path).chars().take(800).collect::<String>(),
                    clipped(content)
                ),
            );
            break;
        }
        if want == Verdict3::Crash {
            obs.set_fail("C07:check-crashes", format!("`lace check` crashes on this content: {}\n{}", check.brief(), clipped(content)));
            break;
        }
    }
    let _ = child.kill();
    let _ = child.wait();
    if inconclusive && obs.fail.is_none() {
        obs.excluded = Some("watch produced no verdict in time (inconclusive, not asserted)");
        obs.nontrivial = false;
    }
    obs
}

/// Sources that share label names, valid and failing at every stage (after labels were recorded).
fn watch_pool() -> Vec<String> {
    vec![
        "start lea r0 msg\nputs\nloop add r1 r1 #1\nbrn loop\nhalt\nmsg .stringz \"hi\"\n".into(),
        "start and r0 r0 #0\nnext add r0 r0 #1\nbrz next\nhalt\n.break\nmsg .fill x41\n".into(),
        "start add r0 r0\nhalt\n".into(),
        "start br nowhere\nmsg halt\n".into(),
        "start br far\nloop .blkw #600\nfar halt\n".into(),
        "loop ld r0 msg\nmsg .fill x1\nstart halt\nloop halt\n".into(),
        "br msg\nhalt\n".into(),
        "ld r0 loop\nst r0 next\nhalt\n".into(),
        "msg halt\nfar br msg\nnext .fill x0\n".into(),
        "$$$\nstart halt\n".into(),
        // two versions of equal length, one broken
        "start ld r0 VALUF\nhalt\nVALUE .fill x1\n".into(),
        "start ld r0 VALUE\nhalt\nVALUE .fill x1\n".into(),
    ]
}

/// Generated scenario number `k` (deterministic in seed and k): 4-7 contents from the pool, each
/// with a way of reaching the disk and optional changes to other files of the folder.
fn generated_watch(seed: u64, k: u64) -> Case {
    let pool = watch_pool();
    let mut x = mix(seed.wrapping_mul(0x9E37).wrapping_add(k).wrapping_add(0x5EED));
    let mut next = || {
        x = mix(x.wrapping_add(0x9E3779B97F4A7C15));
        x
    };
    let n = 4 + (next() % 4) as usize;
    let mut contents = Vec::new();
    let mut events = Vec::new();
    let mut prev_broken = false;
    let mut prev_pick = 0usize;
    for _ in 0..n {
        let mut pick = (next() % pool.len() as u64) as usize;
        // the equal-length pair tends to come together
        if prev_pick >= 10 && next() % 2 == 0 {
            pick = 21 - prev_pick;
        }
        contents.push(pool[pick].clone());
        let mut how = [0u8, 0, 1, 2, 3][(next() % 5) as usize];
        // a version of the same length as the one before often keeps its modification time too
        if pick >= 10 && prev_pick >= 10 && next() % 3 != 0 {
            how = [0u8, 3][(next() % 2) as usize] | 0x20;
        } else if next() % 8 == 0 {
            how |= 0x20;
        }
        // right after a version that failed (labels may have been recorded) sibling files change
        // more often: the re-check those events cause sees the broken version once more
        let side = if prev_broken { [8u8, 8, 12, 4, 16, 0][(next() % 6) as usize] } else { [0u8, 0, 0, 4, 8, 8, 16, 12][(next() % 8) as usize] };
        events.push(how | side);
        prev_broken = matches!(pick, 2..=7 | 9 | 10);
        prev_pick = pick;
    }
    Case::Watch { contents, events }
}

fn watch_scenarios() -> Vec<Vec<String>> {
    let labelled = "start lea r0 msg\nputs\nloop add r1 r1 #1\nbrn loop\nhalt\nmsg .stringz \"hi\"\n".to_string();
    let other = "start and r0 r0 #0\nnext add r0 r0 #1\nbrz next\nhalt\n.break\nmsg .fill x41\n".to_string();
    let bad_parse = "start add r0 r0\nhalt\n".to_string();
    let bad_label = "start br nowhere\nhalt\n".to_string();
    let bad_emit = "start br far\n.blkw #600\nfar halt\n".to_string();
    let stack = "start push r0\npop r0\nhalt\n".to_string();
    // versions with thousands of labels: every table the assembler keeps between statements has
    // grown (and perhaps been reallocated) before the next version is checked
    let big = |n: usize, v: u32| {
        let mut t = String::from(".orig x3000\nhalt\n");
        for i in 0..n {
            t.push_str(&format!("lbl_{i} .fill #{v}\n"));
        }
        t.push_str(".end\n");
        t
    };
    let uses_big_label = "start ld r0 lbl_77\nhalt\n".to_string();
    let redefines = "lbl_1 halt\nlbl_2 .fill x1\nlbl_4000 .fill x2\n".to_string();
    vec![
        vec![big(3700, 1), big(3700, 2), redefines.clone(), uses_big_label.clone(), labelled.clone()],
        vec![labelled.clone(), big(9000, 1), uses_big_label, big(9000, 3), redefines, big(40_000, 1), other.clone()],
        // the same labelled source twice (needs the state reset), then a different one
        vec![labelled.clone(), labelled.clone(), other.clone(), labelled.clone()],
        // failures half-way, then valid again
        vec![labelled.clone(), bad_parse, labelled.clone(), bad_label, other.clone(), bad_emit, other],
        // stack mnemonics (feature state must be initialised before lexing)
        vec![labelled.clone(), stack, labelled],
    ]
}

fn source_cases() -> impl Strategy<Value = Case> {
    let inject = crate::pick![
        3 => Just(Inject::None),
        1 => Just(Inject::Lexical),
        1 => Just(Inject::OperandKind),
        1 => Just(Inject::LiteralRange),
        1 => Just(Inject::DuplicateLabel),
        1 => Just(Inject::UndefinedLabel),
        1 => Just(Inject::RepeatedOrig),
        6 => (any::<u8>(), any::<u8>()).prop_map(|(a, b)| Inject::OutOfReach(a, b)),
        3 => (any::<u8>(), any::<u8>()).prop_map(|(a, b)| Inject::BackwardAtSize(a, b)),
        2 => any::<u8>().prop_map(Inject::HighOrigin),
        2 => any::<u8>().prop_map(Inject::InvalidUtf8),
        2 => any::<u8>().prop_map(Inject::Signature),
    ];
    (proggen::prog_spec(10), inject, any::<bool>()).prop_map(|(spec, inject, stack_flag)| Case::Source { spec, inject, stack_flag })
}

impl Prop for C07 {
    fn id(&self) -> &'static str {
        "C07"
    }
    fn needs_cli(&self) -> bool {
        true
    }
    fn rule(&self) -> &'static str {
        "ProgGen sources, valid and with one injected error of every class (lexical, operand kind, literal range, duplicate label, undefined label, repeated .orig, and a label out of reach at ANY statement position for every PC-relative form BR/BRz/LD/LDI/LEA/ST/STI/JSR/CALL - the only class that surfaces when words are emitted; paddings barely / comfortably / far beyond the reach, and backward references in programs whose total size sits exactly at the reach of the field), valid programs whose image ends within 2 words of the top of memory, files that are not UTF-8 (a Latin-1 byte, truncated or invalid sequences - in a comment, a string literal, a label or as a token), files that begin with, contain at a line start or end with one of 26 stream signatures (byte order marks, `#!`, escape introducers, CR LF, end-of-input controls, blank look-alikes), 20 kinds of file name, with or without an unrelated, newer object file of the same stem beside the source, with and without stack mnemonics, with and without `--features stack`, through the real binary: `lace check f.asm`, `lace compile f.asm out.lc3 [flags]`, `lace run f.asm [flags]` and the bare `lace f.asm [flags]` (flag spelled `-f stack`, `--features stack` or `--features=stack`). \
         Oracle: compile and run (same flags) agree on whether the source assembles (run reaches 'Running emitted binary' iff compile exits 0); compile rejects => run and (default setting) check report an error, where a crash (status 101 / signal / panic message) never counts as a report; check succeeds => compile succeeds; check never crashes. \
         `lace watch`: five fixed scenarios of 3-7 plain rewrites (same labelled source twice, failures half-way then valid again, stack mnemonics, and two in which versions with 3,700 / 9,000 / 40,000 labels are followed by small versions that redefine or wrongly use those names) and 16 (quick) / 80 (thorough) generated ones - 4-7 contents from a pool of ten sources that share label names (valid, failing in the lexer, parser, at backpatch, at emission, on a duplicate label), each saved by rewriting in place, remove-then-create, rename-over or a two-step write, optionally after another file of the folder was created, removed or written, optionally keeping the file's previous modification time (one fixed scenario alternates two versions of equal length that way): after each debounced re-check the verdict printed (Success / diagnostic / crash) must equal `lace check` on the same content; a scenario that yields no verdict within 15 s is recorded as inconclusive and not asserted. \
         Non-trivial: the only error is an emission-time one, or the source uses a stack mnemonic, or a watch scenario. Distinct = hash(source, flag)."
    }
    fn assumptions(&self) -> Vec<String> {
        vec![
            "watch is exercised through the events that in-place rewrites, remove+create, rename-over and changes to sibling files produce; real editor timing is out of reach; inotify must work in the sandbox (else the scenarios are inconclusive and skipped)".into(),
            "valid programs are only run when RefVM says they terminate; watchdog timeouts are excluded, never verdicts".into(),
        ]
    }
    fn profiles(&self, _tier: Tier) -> Vec<&'static str> {
        vec!["A"]
    }
    fn run_worker(&self, ctx: &Ctx, rep: &mut Report) {
        // every judged case spawns processes: keep shrinking short
        std::env::set_var("VERIF_MAX_SHRINK", "40");
        let n = ctx.share(ctx.tier.pick(480, 5000));
        drive(ctx, rep, "sources", source_cases(), n, &mut |c: &Case| judge_case(c));
        for (i, sc) in watch_scenarios().into_iter().enumerate() {
            // one scenario per worker at most (they take seconds each)
            if ctx.worker == i % ctx.nworkers {
                judge_one(ctx, rep, &Case::Watch { contents: sc, events: vec![] }, &mut |c| judge_case(c));
            }
        }
        // versions of equal length that keep the file's modification time (`cp -p`, `rsync -t`)
        if ctx.worker == 5 % ctx.nworkers {
            let pool = watch_pool();
            let (broken, valid) = (pool[10].clone(), pool[11].clone());
            judge_one(ctx, rep, &Case::Watch { contents: vec![valid.clone(), broken.clone(), valid.clone(), broken, valid], events: vec![0, 0x20, 0x20, 0x23, 0x20] }, &mut |c| judge_case(c));
        }
        // generated scenarios: every worker runs its own (they take 10-20 s each)
        for round in 0..ctx.tier.pick(1u64, 5) {
            let k = round * ctx.nworkers as u64 + ctx.worker as u64;
            judge_one(ctx, rep, &generated_watch(ctx.seed, k), &mut |c| judge_case(c));
        }
    }
    fn replay(&self, _ctx: &Ctx, case: &Value) -> Obs {
        match serde_json::from_value::<Case>(case.clone()) {
            Ok(c) => judge_case(&c),
            Err(e) => Obs::fail("C07:bad-replay-file", format!("cannot parse case: {e}")),
        }
    }
}
