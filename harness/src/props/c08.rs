//! C08 — compile is all-or-nothing (fault enumeration at process level).

use proptest::prelude::*;
use serde::{Deserialize, Serialize};
use serde_json::Value;

use crate::cli::{self, TempDir};
use crate::engine::*;
use crate::proggen::{self, ProgSpec};
use crate::refasm::{self, Body, Layout, Line, Op, Operand, Stmt, Verdict};

pub struct C08;

#[derive(Clone, Copy, Debug, Serialize, Deserialize, PartialEq, Eq, Hash)]
pub enum Dest {
    Absent,
    ExistingShort,
    ExistingLong,
    /// the destination holds the object file of a longer version of the same program: the new
    /// image followed by further words (what recompiling a shortened source meets)
    ExistingExtends,
    /// the destination holds the first half of the new image
    ExistingPrefix,
    /// the destination already holds exactly the new image
    ExistingSame,
}

#[derive(Clone, Copy, Debug, Serialize, Deserialize, PartialEq, Eq, Hash)]
pub enum Fault {
    None,
    DevFull,
    MissingDir,
    IsDirectory,
    ReadOnlyFile,
    /// the process may write files of at most 64 bytes (RLIMIT_FSIZE): the write of a longer image
    /// is cut short and then fails, as on a disk that fills up half-way
    FileSizeLimit,
}

#[derive(Clone, Debug, Serialize, Deserialize)]
pub struct Case {
    pub spec: ProgSpec,
    /// None: the valid program; Some(i): an out-of-reach label reference at statement position i
    pub fail_at: Option<usize>,
    /// Some(total): instead, a backward reference from the last statement to the first one in a
    /// program of exactly `total` words (small totals right at the reach of the field)
    #[serde(default)]
    pub back_total: Option<usize>,
    pub dest: Dest,
    pub fault: Fault,
    /// use the default destination (<name>.lc3 in the working directory)
    pub default_dest: bool,
    /// how the files are called (`cli::stem`); 0 = `prog`
    #[serde(default)]
    pub name: u8,
    /// Some((n, m, origin)): the program is C01's statement-heavy `bulk_program(n, m, origin)`
    #[serde(default)]
    pub bulk: Option<(u32, u32, u8)>,
}

/// Insert, at statement position `pos`, a reference to a label that is defined but out of reach
/// (so the source lexes, parses and backpatches: the failure surfaces when words are emitted).
fn with_failure(mut p: refasm::Program, pos: usize, which: usize) -> refasm::Program {
    let (op, regs): (Op, Vec<u8>) = [(Op::Br(7, false), vec![]), (Op::Ld, vec![1]), (Op::Lea, vec![2]), (Op::St, vec![3]), (Op::Jsr, vec![])][which % 5].clone();
    let stmt_positions: Vec<usize> = (0..p.lines.len()).filter(|i| matches!(p.lines[*i].body, Body::Stmt(_))).collect();
    let at = stmt_positions.get(pos).copied().unwrap_or(p.lines.len());
    p.lines.insert(at, Line::stmt(None, Stmt::new(op, &regs, Operand::Label("FARAWAY".into()))));
    // barely / comfortably / far out of reach (the reference decides what is out of reach)
    let reach = 1i32 << (op.pcrel_bits().unwrap() - 1);
    // ... or at a distance of 32,767 / 32,768 / 32,769 words, where 16-bit arithmetic on the
    // distance itself ends
    let words_after: i32 = p.lines[at + 1..].iter().map(|l| if let Body::Stmt(s) = &l.body { s.size().unwrap_or(1) as i32 } else { 0 }).sum();
    let exact = (32_768 - words_after).max(1);
    let pad = [reach, reach + 1, reach + 33, 2 * reach - 7, 3000, exact - 1, exact, exact + 1][(which / 5) % 8];
    p.lines.push(Line::stmt(None, Stmt::new(Op::Blkw, &[], Operand::Lit(refasm::Lit::Hex(pad as u16, 0)))));
    p.lines.push(Line::stmt(Some("FARAWAY"), Stmt::simple(Op::Halt)));
    p
}

pub fn judge_case(c: &Case) -> Obs {
    let mut obs = Obs::default();
    // injected references go behind the program: keep the image-fit padding (which fills the address
    // space) out of those cases, or label distances beyond 2^16 come into play (C04's known finding)
    let mut spec = c.spec.clone();
    if c.fail_at.is_some() || c.back_total.is_some() {
        spec.fit = 0;
    }
    let mut built = proggen::build(&spec);
    if let Some((n, m, origin)) = c.bulk {
        built.program = super::c01::bulk_program(n, m, origin);
        built.stack = false;
        obs.label("statement-heavy-program-near-capacity");
    }
    let nstmts = built.program.lines.iter().filter(|l| matches!(l.body, Body::Stmt(_))).count();
    let program = match (c.back_total, c.fail_at) {
        (Some(total), _) => {
            let (op, regs): (Op, Vec<u8>) = [(Op::Br(7, false), vec![]), (Op::Ld, vec![1]), (Op::St, vec![3]), (Op::Lea, vec![2])][total % 4].clone();
            match refasm::with_backward_reference(&built.program, op, &regs, total) {
                Some(p) => p,
                None => {
                    obs.excluded = Some("program longer than the targeted total");
                    return obs;
                }
            }
        }
        (None, Some(i)) => with_failure(built.program.clone(), i.min(nstmts), i + c.spec.orig_val as usize),
        (None, None) => built.program.clone(),
    };
    let verdict = refasm::judge(&program, built.stack);
    let expect_ok = match (&verdict, c.fail_at.or(c.back_total)) {
        (Verdict::Accept(_), _) => true,
        (Verdict::Reject("label out of reach"), Some(_)) => false,
        _ => {
            obs.excluded = Some("generator: program not as intended");
            return obs;
        }
    };
    // half of the sources are written plainly, half with comments (ASCII and multi-byte), blank
    // lines, mixed case and separators, and statements that go on on the next line
    let lh = hash_of(&(c.dest, c.fault, c.name, c.fail_at, c.back_total, c.default_dest));
    let layout = if lh % 2 == 0 || c.bulk.is_some() { Layout::CANON } else { Layout { seed: lh >> 8, style: 2 + ((lh >> 1) % 2) as u8, end: false } };
    if layout.style != 0 {
        obs.label("source-with-comments-and-varied-layout");
    }
    let text = refasm::render(&program, layout).text;
    obs.key = hash_of(&(&text, c.dest, c.fault, c.default_dest, c.name));
    obs.nontrivial = c.fail_at.is_some() || c.back_total.is_some() || c.fault != Fault::None;
    obs.show = Some(format!("fail_at={:?} dest={:?} fault={:?} default_dest={} stack={}\n{}", c.fail_at, c.dest, c.fault, c.default_dest, built.stack, if text.len() > 4000 { format!("{} ...\n[bulk program {:?}: {} lines]", text.chars().take(800).collect::<String>(), c.bulk, text.lines().count()) } else { text.clone() }));
    obs.label(match c.dest {
        Dest::Absent => "destination-absent",
        Dest::ExistingShort | Dest::ExistingLong => "destination-unrelated-contents",
        Dest::ExistingExtends => "destination-holds-longer-version",
        Dest::ExistingPrefix => "destination-holds-prefix",
        Dest::ExistingSame => "destination-holds-same-image",
    });
    obs.label(match c.fault {
        Fault::None => "fault-none",
        Fault::DevFull => "fault-dev-full",
        Fault::MissingDir => "fault-missing-directory",
        Fault::IsDirectory => "fault-destination-is-directory",
        Fault::ReadOnlyFile => "fault-read-only-file",
        Fault::FileSizeLimit => "fault-file-size-limit",
    });
    if c.fail_at.is_some() || (c.back_total.is_some() && !expect_ok) {
        obs.label("assembly-fails-at-emission");
    }
    if c.back_total.is_some() {
        obs.label("backward-reference-at-exact-program-size");
    }
    let dir = TempDir::new();
    let stem = cli::stem(c.name as u64);
    let src_name = format!("{stem}.asm");
    if c.name % 28 > 7 {
        obs.label("unusual-file-name");
    }
    dir.write(&src_name, text.as_bytes());
    // destination
    let old_short: Vec<u8> = b"OLD!".to_vec();
    let old_long: Vec<u8> = (0..20000u32).map(|i| (i % 251) as u8).collect();
    let (dest_arg, dest_path): (Option<String>, Option<std::path::PathBuf>) = match c.fault {
        Fault::DevFull => (Some("/dev/full".into()), None),
        Fault::MissingDir => (Some("no/such/dir/out.lc3".into()), Some(dir.path().join("no/such/dir/out.lc3"))),
        Fault::IsDirectory => {
            std::fs::create_dir_all(dir.path().join("adir.lc3")).unwrap();
            (Some("adir.lc3".into()), None)
        }
        _ => {
            if c.default_dest {
                (None, Some(dir.path().join(format!("{stem}.lc3"))))
            } else {
                // (the explicit destination carries the same kind of name)
                let out = if c.name % 28 > 7 { format!("{stem}.out.lc3") } else { "out.lc3".to_string() };
                (Some(out.clone()), Some(dir.path().join(out)))
            }
        }
    };
    // the image the reference expects (when the program is valid; otherwise that of the base program)
    let related_image: Vec<u8> = {
        let img = match &verdict {
            Verdict::Accept(img) => Some(img.clone()),
            _ => match refasm::judge(&built.program, built.stack) {
                Verdict::Accept(img) => Some(img),
                _ => None,
            },
        };
        let mut v = Vec::new();
        if let Some(img) = img {
            v.extend(img.orig.unwrap_or(0x3000).to_be_bytes());
            for w in &img.words {
                v.extend(w.to_be_bytes());
            }
        }
        v
    };
    let related: Option<Vec<u8>> = match c.dest {
        Dest::ExistingExtends => {
            let mut v = related_image.clone();
            v.extend((0..(2 + 2 * (obs.key % 9) as usize)).map(|i| [0x12u8, 0x34, 0xF0, 0x25, 0x00, 0x00][i % 6]));
            Some(v)
        }
        Dest::ExistingPrefix => Some(related_image[..(related_image.len() / 4) * 2].to_vec()),
        Dest::ExistingSame => Some(related_image.clone()),
        _ => None,
    };
    let before: Option<Vec<u8>> = match (c.fault, c.dest, &dest_path) {
        (Fault::None | Fault::ReadOnlyFile | Fault::FileSizeLimit, Dest::ExistingExtends | Dest::ExistingPrefix | Dest::ExistingSame, Some(p)) => {
            let bytes = related.clone().unwrap_or_default();
            std::fs::write(p, &bytes).unwrap();
            Some(bytes)
        }
        (Fault::None | Fault::ReadOnlyFile | Fault::FileSizeLimit, Dest::ExistingShort, Some(p)) => {
            std::fs::write(p, &old_short).unwrap();
            Some(old_short.clone())
        }
        (Fault::None | Fault::ReadOnlyFile | Fault::FileSizeLimit, Dest::ExistingLong, Some(p)) => {
            std::fs::write(p, &old_long).unwrap();
            Some(old_long.clone())
        }
        (Fault::ReadOnlyFile, Dest::Absent, Some(p)) => {
            std::fs::write(p, &old_short).unwrap();
            Some(old_short.clone())
        }
        _ => None,
    };
    if c.fault == Fault::ReadOnlyFile {
        if let Some(p) = &dest_path {
            let mut perm = std::fs::metadata(p).unwrap().permissions();
            perm.set_readonly(true);
            std::fs::set_permissions(p, perm).unwrap();
            // root ignores permission bits: only meaningful when the write really is refused
            if std::fs::OpenOptions::new().write(true).open(p).is_ok() {
                obs.excluded = Some("read-only files are writable for this user (root)");
                return obs;
            }
        }
    }
    let mut args: Vec<&str> = vec!["compile", &src_name];
    if let Some(d) = &dest_arg {
        args.push(d);
    }
    if built.stack {
        args.extend(["-f", "stack"]);
    }
    let run = if c.fault == Fault::FileSizeLimit { cli::lace_fsize(&args, dir.path(), &[], false, 30, Some(64)) } else { cli::lace(&args, dir.path(), &[], false, 30) };
    if run.timed_out {
        obs.excluded = Some("watchdog");
        return obs;
    }
    let after: Option<Vec<u8>> = dest_path.as_ref().and_then(|p| std::fs::read(p).ok());
    let expected_image = || -> Vec<u8> {
        let Verdict::Accept(img) = &verdict else { return vec![] };
        let mut v = img.orig.unwrap_or(0x3000).to_be_bytes().to_vec();
        for w in &img.words {
            v.extend(w.to_be_bytes());
        }
        v
    };
    let what = format!("`lace {}`: {}", args.join(" "), run.brief());
    if run.ok() {
        match c.fault {
            Fault::DevFull => {
                obs.set_fail("C08:success-reported-without-writing", format!("the destination accepts no data, yet compile exits 0\n{what}"));
            }
            Fault::MissingDir | Fault::IsDirectory | Fault::ReadOnlyFile => {
                obs.set_fail("C08:success-reported-without-writing", format!("the destination cannot be written, yet compile exits 0\n{what}"));
            }
            Fault::None | Fault::FileSizeLimit => {
                if !expect_ok {
                    obs.set_fail("C08:invalid-program-compiled", format!("the source must be rejected (label out of reach)\n{what}"));
                } else if after.as_deref() != Some(&expected_image()[..]) {
                    obs.set_fail(
                        "C08:exit-0-but-incomplete-file",
                        format!("compile exits 0 but the destination holds {} bytes, the complete image has {}\n{what}", after.as_ref().map(|a| a.len()).unwrap_or(0), expected_image().len()),
                    );
                }
            }
        }
    } else {
        // non-zero exit: the destination must be as it was
        if dest_path.is_some() && after != before {
            let sig = match (&before, &after) {
                _ if c.fault == Fault::FileSizeLimit && after.as_ref().map(|a| expected_image().starts_with(a)).unwrap_or(false) => "C08:interrupted-write-leaves-partial-file",
                (None, Some(_)) => "C08:failed-compile-creates-file",
                (Some(_), Some(_)) => "C08:failed-compile-clobbers-file",
                _ => "C08:failed-compile-removes-file",
            };
            obs.set_fail(
                sig,
                format!(
                    "compile failed (exit {:?}) but the destination changed: before {} bytes, after {} bytes\n{what}",
                    run.code,
                    before.as_ref().map(|b| b.len() as i64).unwrap_or(-1),
                    after.as_ref().map(|b| b.len() as i64).unwrap_or(-1)
                ),
            );
        } else if expect_ok && c.fault == Fault::None {
            obs.set_fail("C08:valid-program-not-compiled", format!("a valid program must compile\n{what}"));
        }
    }
    obs
}

impl Prop for C08 {
    fn id(&self) -> &'static str {
        "C08"
    }
    fn level(&self) -> &'static str {
        "fault_enumeration"
    }
    fn needs_cli(&self) -> bool {
        true
    }
    fn rule(&self) -> &'static str {
        "For each generated ProgGen program of n <= ~14 statements: the valid program and an out-of-reach label reference (BR/LD/LEA/ST/JSR in turn) placed at EVERY statement position 0..n (padding barely / comfortably / far beyond the field's reach, or placing the label exactly 32,767 / 32,768 / 32,769 words away), and a backward reference from the last to the first statement in programs of exactly 255..259 and 300 words, x destination {absent, pre-existing with known contents, pre-existing and longer than the new image, the new image followed by further words (object file of a longer version of the program), the first half of the new image, exactly the new image} x default / explicit destination; the valid program and one failing one under 20 kinds of file name (dotted stems, long, blank, leading dot, 2- and 3-byte characters up to and beyond 64 bytes at every byte-offset parity); and the destination faults {/dev/full, path in a non-existent directory, path that is a directory, read-only file, a file size limit of 64 bytes (the write is cut short and then fails, as on a disk that fills up half-way) onto absent / shorter / longer / related destinations}. `lace compile` is the real binary (guard off). \
         Oracle: exit 0 => the destination holds exactly origin ++ words of the RefAsm image (big-endian); exit != 0 => the destination's bytes / absence are exactly as before; a destination that cannot take the data must not end in exit 0. \
         Non-trivial: a failure is injected (emission position or I/O fault). Distinct = hash(source, destination state, fault). The enumerated fault set is complete per program (exhaustive over positions x destination states x listed faults); programs are sampled."
    }
    fn assumptions(&self) -> Vec<String> {
        vec![
            "a write failing midway on a real filesystem (ENOSPC at byte k, SIGKILL between writes) is not injectable here; read-only destinations are skipped when the user is root".into(),
            "crash-freedom of the CLI is not claimed here: a panic is a non-zero exit; only the file invariant is asserted".into(),
        ]
    }
    fn profiles(&self, _tier: Tier) -> Vec<&'static str> {
        vec!["A"]
    }
    fn run_worker(&self, ctx: &Ctx, rep: &mut Report) {
        // every judged case spawns processes: keep shrinking short
        std::env::set_var("VERIF_MAX_SHRINK", "40");
        let nprog = ctx.tier.pick(24, 300);
        let mut d = Driver::new(ctx, "programs");
        let mut n = 0u64;
        for pi in 0..nprog {
            if !ctx.mine(pi) {
                continue;
            }
            // one generated program, then the complete fault set for it
            let mut spec_holder: Option<ProgSpec> = None;
            d.one(ctx, rep, &proggen::prog_spec(6).prop_map(|mut s| {
                s.subs.truncate(1);
                s
            }), &mut |s: &ProgSpec| {
                spec_holder = Some(s.clone());
                let mut o = Obs::default();
                o.excluded = Some("program drawn (its fault set follows)");
                o
            });
            let Some(spec) = spec_holder else { continue };
            let built = proggen::build(&spec);
            let nstmts = built.program.lines.iter().filter(|l| matches!(l.body, Body::Stmt(_))).count();
            let mut positions: Vec<Option<usize>> = vec![None];
            positions.extend((0..=nstmts).map(Some));
            for fail_at in positions {
                for (k, dest) in [Dest::Absent, Dest::ExistingShort, Dest::ExistingLong, Dest::ExistingExtends, Dest::ExistingPrefix, Dest::ExistingSame].into_iter().enumerate() {
                    n += 1;
                    let case = Case { spec: spec.clone(), fail_at, back_total: None, dest, fault: Fault::None, default_dest: (n + k as u64) % 3 == 0, name: 0 , bulk: None };
                    judge_one(ctx, rep, &case, &mut |c| judge_case(c));
                }
            }
            // the valid program and one failing one under every kind of file name, both destinations
            for name in 8..28u8 {
                for (fail_at, dest, default_dest) in [(None, Dest::Absent, false), (None, Dest::ExistingLong, true), (Some(nstmts / 2), Dest::ExistingShort, name % 2 == 0)] {
                    let case = Case { spec: spec.clone(), fail_at, back_total: None, dest, fault: Fault::None, default_dest, name , bulk: None };
                    judge_one(ctx, rep, &case, &mut |c| judge_case(c));
                }
            }
            // backward references in programs whose total size sits right at the reach of a 9-bit field
            for total in [255usize, 256, 257, 258, 259, 300] {
                for dest in [Dest::Absent, Dest::ExistingLong] {
                    let case = Case { spec: spec.clone(), fail_at: None, back_total: Some(total), dest, fault: Fault::None, default_dest: false, name: 0 , bulk: None };
                    judge_one(ctx, rep, &case, &mut |c| judge_case(c));
                }
            }
            for fault in [Fault::DevFull, Fault::MissingDir, Fault::IsDirectory, Fault::ReadOnlyFile] {
                for fail_at in [None, Some(0), Some(nstmts / 2)] {
                    let case = Case { spec: spec.clone(), fail_at, back_total: None, dest: Dest::Absent, fault, default_dest: false, name: 0 , bulk: None };
                    judge_one(ctx, rep, &case, &mut |c| judge_case(c));
                }
            }
            // a write that is cut short half-way (file size limit of 64 bytes), onto every kind of destination
            for dest in [Dest::Absent, Dest::ExistingShort, Dest::ExistingLong, Dest::ExistingExtends, Dest::ExistingSame] {
                for fail_at in [None, Some(nstmts / 2)] {
                    let case = Case { spec: spec.clone(), fail_at, back_total: None, dest, fault: Fault::FileSizeLimit, default_dest: dest == Dest::ExistingLong, name: 0, bulk: None };
                    judge_one(ctx, rep, &case, &mut |c| judge_case(c));
                }
            }
        }
        // statement-heavy programs near the capacity of the address space, valid and failing at the last statement
        let grid = super::c01::bulk_grid(false);
        for (i, b) in grid.iter().enumerate() {
            if i % 3 != 0 || !ctx.mine(1000 + i as u64) {
                continue;
            }
            let spec = ProgSpec { main: vec![], subs: vec![], sub_call: vec![], ending: proggen::Ending::Halt, orig_sel: 0, orig_val: 0x3000, stack: false, recursion: 0, data: vec![0], strings: vec![String::new()], raw_words: None, fit: 0, spin: 0 };
            for (fail_at, dest) in [(None, Dest::ExistingLong), (Some(usize::MAX / 2), Dest::ExistingShort)] {
                let case = Case { spec: spec.clone(), fail_at, back_total: None, dest, fault: Fault::None, default_dest: false, name: 0, bulk: Some(*b) };
                judge_one(ctx, rep, &case, &mut |c| judge_case(c));
            }
        }
        rep.notes.push("half of the sources are rendered with comments (ASCII and multi-byte), blank lines, mixed case and statements across lines".into());
        rep.exhaustive.push("per generated program: every emission position x 6 destination states, plus 4 destination faults x 3 assembly outcomes".into());
    }
    fn replay(&self, _ctx: &Ctx, case: &Value) -> Obs {
        match serde_json::from_value::<Case>(case.clone()) {
            Ok(c) => judge_case(&c),
            Err(e) => Obs::fail("C08:bad-replay-file", format!("cannot parse case: {e}")),
        }
    }
}
