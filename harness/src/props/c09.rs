//! C09 — The debugger is transparent to the program.
//! Metamorphic: debugged run (any script of control/inspection commands, then quit or end of
//! input) ≡ plain run of the same image and input, on output, exit status and full final state.

use proptest::prelude::*;
use serde::{Deserialize, Serialize};
use serde_json::Value;

use super::c03::input_bytes;
use crate::dbgcheck::*;
use crate::engine::*;
use crate::lacebox::{self, Load, RunSpec, Stop};
use crate::proggen::{self, ProgSpec};
use crate::refasm::Layout;
use crate::refdbg::Cmd;
use crate::refvm::{self, RunStop, Vm};

pub struct C09;

#[derive(Clone, Debug, Serialize, Deserialize)]
pub struct Case {
    pub spec: ProgSpec,
    pub cmds: Vec<RawCmd>,
    pub input: Vec<u8>,
    pub explicit_quit: bool,
}

const BUDGET: u64 = 6000;

pub fn judge_case(c: &Case) -> Obs {
    let mut obs = Obs::default();
    let p = match prepare(&c.spec, Layout { seed: c.cmds.len() as u64 * 7 + 1, style: 2, end: c.explicit_quit }) {
        Ok(p) => p,
        Err(why) => {
            obs.excluded = Some(why);
            return obs;
        }
    };
    if let Some(l) = proggen::fit_label(&c.spec) {
        obs.label(l);
    }
    // with end of input instead of `quit`, the debugger legitimately reads the rest of stdin as
    // commands (shared stream): such sessions get no program input
    let input: Vec<u8> = if c.explicit_quit { c.input.clone() } else { vec![] };
    let budget = BUDGET + proggen::extra_budget(&c.spec);
    if c.spec.spin > 0 {
        obs.label("one-stretch-longer-than-65536-instructions");
    }
    let rr = refvm::run(Vm::load(p.orig, &p.img.words, p.built.stack), &input, budget, Some(0xFFFD));
    match &rr.stop {
        RunStop::OutOfFuel => {
            obs.excluded = Some("program does not terminate within the budget");
            return obs;
        }
        RunStop::Unspecified(k) => {
            obs.excluded = Some(k);
            return obs;
        }
        _ => {}
    }
    if rr.printed_escape {
        obs.excluded = Some("program prints ESC (minimal mode strips escape sequences)");
        return obs;
    }
    if input.iter().take(rr.consumed).any(|b| *b >= 0x80) {
        obs.excluded = Some("non-ASCII input read");
        return obs;
    }
    let cmds: Vec<Cmd> = c
        .cmds
        .iter()
        .map(|r| if r.kind & 0x80 != 0 { make_inspect_cmd(&p, r) } else { make_control_cmd(&p, r) })
        .collect();
    let aliases: Vec<u8> = c.cmds.iter().map(|r| r.alias).collect();
    let script = script_text(&cmds, &aliases, cmds.len(), false, if c.explicit_quit { Some("quit") } else { None });
    let shown = show_case(&p, &script, &input);
    obs.show = Some(shown.clone());
    obs.key = hash_of(&(&p.text, &script, &input));
    for cmd in &cmds {
        obs.label(match cmd_class(cmd) {
            "step" | "step-into" | "step-out" | "continue" => "script-resumes",
            "break-add" | "break-remove" | "break-list" => "script-breakpoints",
            _ => "script-inspects",
        });
    }
    // the comparison is between two runs of lace and reads the machine through hook H1: a third of
    // the pairs run in the normal (non-minimal) output mode, whose views and tables are code that
    // the minimal mode skips (REG's listing differs between the modes, but equally in both runs)
    let minimal = obs.key % 3 != 0;
    obs.label(if minimal { "output-mode-minimal" } else { "output-mode-normal" });
    let plain = lacebox::run_session(
        Load::Source { text: p.text.clone(), debugger: None },
        RunSpec { stack: p.built.stack, minimal, fuel: budget + 2, input: input.clone() },
    );
    let Some(po) = outcome_of(&mut obs, "C09", &plain, &shown) else { return obs };
    let fuel = 8 * (rr.steps + cmds.len() as u64 + 2) + 64;
    let dbg = run_lace_mode(&p, &script, &input, fuel, minimal);
    let Some(d) = outcome_of(&mut obs, "C09", &dbg, &shown) else { return obs };
    if d.stop == Stop::OutOfFuel {
        // the plain run stops after rr.steps instructions; a debugged run that does not come back
        // within 8x that work (plus commands) produces neither the output nor the exit status
        obs.set_fail(
            "C09:debugged-run-does-not-terminate",
            format!("the plain run stops after {} instructions; under the debugger the session spent {} run-loop + {} debugger-loop iterations without ending\n{shown}\n--- debugger output ---\n{}", rr.steps, d.ticks, d.inner_ticks, clip(&String::from_utf8_lossy(&d.stderr))),
        );
        return obs;
    }
    // how much happened while attached
    let err = String::from_utf8_lossy(&d.stderr).to_string();
    let pauses = err.matches("Reached::").count() + err.matches("OutOfBounds::ProgramCounter").count() + err.matches("Pausing execution").count();
    let resumes = cmds.iter().filter(|c| c.is_resuming()).count();
    obs.nontrivial = resumes >= 2 && pauses >= 1 && rr.steps >= 3;
    if !p.breaks.is_empty() {
        obs.label("source-has-break-directives");
    }
    match &rr.stop {
        RunStop::Exit(_) => obs.label("program-ends-in-error-exit"),
        _ => obs.label("program-ends-normally"),
    }
    let dbgout = || clip(&err);
    if d.stop != po.stop {
        obs.set_fail("C09:exit-status-differs", format!("plain run: {:?}; under the debugger: {:?}\n{shown}\n--- debugger output ---\n{}", po.stop, d.stop, dbgout()));
    } else if d.stdout != po.stdout {
        obs.set_fail(
            "C09:program-output-differs",
            format!("plain run printed {:?}; under the debugger {:?}\n{shown}\n--- debugger output ---\n{}", String::from_utf8_lossy(&po.stdout), String::from_utf8_lossy(&d.stdout), dbgout()),
        );
    } else if d.fin != po.fin {
        let what = match (&d.fin, &po.fin) {
            (Some(a), Some(b)) => {
                if a.regs != b.regs {
                    format!("registers {:04X?} vs plain {:04X?}", a.regs, b.regs)
                } else if a.pc != b.pc {
                    format!("PC x{:04X} vs plain x{:04X}", a.pc, b.pc)
                } else if a.cc != b.cc {
                    format!("CC {:03b} vs plain {:03b}", a.cc, b.cc)
                } else {
                    let i = (0..0x10000).find(|i| a.mem[*i] != b.mem[*i]).unwrap_or(0);
                    format!("memory[x{i:04X}] x{:04X} vs plain x{:04X}", a.mem[i], b.mem[i])
                }
            }
            _ => "one run has no final state".into(),
        };
        obs.set_fail("C09:final-state-differs", format!("{what}\n{shown}\n--- debugger output ---\n{}", dbgout()));
    } else if d.input_left != po.input_left {
        obs.set_fail("C09:input-consumption-differs", format!("plain run left {} input bytes, debugged run {}\n{shown}", po.input_left, d.input_left));
    } else if d.execs != po.execs {
        obs.set_fail("C09:instruction-count-differs", format!("plain run executed {} instructions, debugged run {}\n{shown}", po.execs, d.execs));
    }
    // The same session with the script on standard input, followed by the program's input: when
    // nothing resumes execution before `quit`, every input trap runs after the debugger has read
    // its last line, so the program must find its input right behind that line (the debugger may
    // not read ahead on the shared stream) and everything must again equal the plain run.
    if obs.fail.is_none() && c.explicit_quit && resumes == 0 && rr.consumed > 0 && !script.contains('\0') {
        obs.label("script-and-program-input-share-stdin");
        // commands separated by newlines or by `;` - in the latter case the program's input starts
        // on the very line that `quit;` ends
        let semi = obs.key % 2 == 0 && !script.contains(';');
        let mut stdin = if semi { script.replace('\n', ";").into_bytes() } else { script.clone().into_bytes() };
        stdin.push(if semi { b';' } else { b'\n' });
        if semi {
            obs.label("shared-stdin-semicolon-separated");
        }
        let script_len = stdin.len();
        stdin.extend(&input);
        let s2 = lacebox::run_session(
            Load::Source { text: p.text.clone(), debugger: Some(None) },
            RunSpec { stack: p.built.stack, minimal, fuel, input: stdin },
        );
        let Some(d2) = outcome_of(&mut obs, "C09", &s2, &shown) else { return obs };
        let _ = script_len;
        if d2.stop != po.stop || d2.stdout != po.stdout || d2.fin != po.fin || d2.input_left != po.input_left {
            obs.set_fail(
                "C09:shared-stdin-session-differs",
                format!(
                    "script on standard input followed by the program's input: {:?}, output {:?}, {} input bytes left; plain run: {:?}, output {:?}, {} left\n{shown}\n--- debugger output ---\n{}",
                    d2.stop,
                    String::from_utf8_lossy(&d2.stdout),
                    d2.input_left,
                    po.stop,
                    String::from_utf8_lossy(&po.stdout),
                    po.input_left,
                    clip(&String::from_utf8_lossy(&d2.stderr))
                ),
            );
        }
    }
    // ... and when the script does resume execution: the reference debugger says how many input
    // bytes the program consumes while each command runs, so the stream can be laid out the way a
    // user would type it - a command line, then the input the program asks for while that command
    // runs, then the next command line ... then `quit` and the rest of the input. Debugger and
    // program take turns on the stream; neither may read ahead of its turn.
    if obs.fail.is_none() && c.explicit_quit && resumes > 0 && rr.consumed > 0 && !script.contains('\0') && !input.contains(&b'\n') && !input.contains(&b';') {
        let model = run_model(&p, &cmds, &input, budget);
        if model.ambiguous.is_none() && model.kept == cmds.len() {
            let mut stream: Vec<u8> = Vec::new();
            let mut pos = 0usize;
            let mut turns = 0;
            for k in 0..cmds.len() {
                let m = run_model(&p, &cmds[..=k], &input, budget);
                if m.ambiguous.is_some() || m.kept != k + 1 {
                    return obs;
                }
                stream.extend(cmds[k].text(aliases[k]).as_bytes());
                stream.push(b'\n');
                let now = m.dbg.io.pos.min(input.len());
                if now > pos {
                    turns += 1;
                }
                stream.extend(&input[pos..now]);
                pos = now;
            }
            stream.extend(b"quit\n");
            stream.extend(&input[pos..]);
            if turns >= 1 {
                obs.label("script-and-program-input-interleaved-on-stdin");
                let s3 = lacebox::run_session(
                    Load::Source { text: p.text.clone(), debugger: Some(None) },
                    RunSpec { stack: p.built.stack, minimal, fuel, input: stream.clone() },
                );
                let Some(d3) = outcome_of(&mut obs, "C09", &s3, &shown) else { return obs };
                if d3.stop != po.stop || d3.stdout != po.stdout || d3.fin != po.fin {
                    obs.set_fail(
                        "C09:interleaved-stdin-session-differs",
                        format!(
                            "commands and program input taking turns on standard input {:?}: {:?}, output {:?}; plain run: {:?}, output {:?}; final machines {}\n{shown}\n--- debugger output ---\n{}",
                            String::from_utf8_lossy(&stream),
                            d3.stop,
                            String::from_utf8_lossy(&d3.stdout),
                            po.stop,
                            String::from_utf8_lossy(&po.stdout),
                            if d3.fin == po.fin { "equal" } else { "differ" },
                            clip(&String::from_utf8_lossy(&d3.stderr))
                        ),
                    );
                }
            }
        }
    }
    obs
}

/// The same relation through the real binary: `lace debug --minimal --command <script>` against
/// `lace run --minimal` (sample; the in-process check above is the workhorse).
pub fn judge_cli(c: &Case) -> Obs {
    let mut obs = Obs::default();
    let p = match prepare(&c.spec, Layout { seed: 11, style: 1, end: false }) {
        Ok(p) => p,
        Err(why) => {
            obs.excluded = Some(why);
            return obs;
        }
    };
    if let Some(l) = proggen::fit_label(&c.spec) {
        obs.label(l);
    }
    let input: Vec<u8> = if c.explicit_quit { c.input.clone() } else { vec![] };
    let rr = refvm::run(Vm::load(p.orig, &p.img.words, p.built.stack), &input, BUDGET + proggen::extra_budget(&c.spec), Some(0xFFFD));
    if matches!(rr.stop, RunStop::OutOfFuel | RunStop::Unspecified(_)) || rr.printed_escape || input.iter().take(rr.consumed).any(|b| *b >= 0x80) {
        obs.excluded = Some("not a terminating, fully specified run");
        return obs;
    }
    let cmds: Vec<Cmd> = c.cmds.iter().map(|r| if r.kind & 0x80 != 0 { make_inspect_cmd(&p, r) } else { make_control_cmd(&p, r) }).collect();
    if cmds.iter().any(|c| matches!(c, Cmd::Echo(t) if !t.is_ascii())) {
        // keep the sample on the ASCII subset of scripts (the in-process check covers the rest)
    }
    let aliases: Vec<u8> = c.cmds.iter().map(|r| r.alias).collect();
    let script = script_text(&cmds, &aliases, cmds.len(), false, if c.explicit_quit { Some("quit") } else { None });
    let shown = show_case(&p, &script, &input);
    obs.show = Some(shown.clone());
    obs.key = hash_of(&("cli", &p.text, &script, &input));
    obs.label("cli-pair");
    let dir = crate::cli::TempDir::new();
    dir.write("p.asm", p.text.as_bytes());
    let feat: Vec<&str> = if p.built.stack { vec!["-f", "stack"] } else { vec![] };
    let mut a = vec!["run", "p.asm", "--minimal"];
    a.extend(&feat);
    let plain = crate::cli::lace(&a, dir.path(), &input, false, 60);
    let mut b = vec!["debug", "p.asm", "--minimal", "--command", script.as_str()];
    b.extend(&feat);
    // an empty script would make the debugger read the (empty) stdin: fine
    let dbg = crate::cli::lace(&b, dir.path(), &input, false, 60);
    if plain.timed_out || dbg.timed_out {
        obs.excluded = Some("watchdog");
        return obs;
    }
    let resumes = cmds.iter().filter(|c| c.is_resuming()).count();
    obs.nontrivial = resumes >= 2 && rr.steps >= 3;
    if dbg.panicked() {
        obs.set_fail("C09:debugger-crashes", format!("`lace debug` crashed: {}\n{shown}", dbg.brief()));
    } else if plain.code != dbg.code {
        obs.set_fail("C09:exit-status-differs", format!("lace run: {}\nlace debug: {}\n{shown}", plain.brief(), dbg.brief()));
    } else if plain.stdout != dbg.stdout {
        obs.set_fail("C09:program-output-differs", format!("lace run: {}\nlace debug: {}\n{shown}", plain.brief(), dbg.brief()));
    }
    obs
}

fn cases() -> impl Strategy<Value = Case> {
    let spec = crate::pick![5 => proggen::with_spin(proggen::prog_spec(24)).boxed(), 1 => proggen::raw_image_spec(super::c03::image_words()).boxed()];
    (spec, prop::collection::vec(raw_cmd(), 0..14), input_bytes(), any::<bool>()).prop_map(|(spec, cmds, input, explicit_quit)| Case { spec, cmds, input, explicit_quit })
}

impl Prop for C09 {
    fn id(&self) -> &'static str {
        "C09"
    }
    fn rule(&self) -> &'static str {
        "ProgGen programs and (1 in 6) arbitrary word images that terminate under RefVM (all endings incl. error exits and jumps to 0xFFFF, self-modifying code, .break directives, input-reading programs) x scripts of 0-13 commands over {step, step into k, step out, continue, break add/remove/list, print, registers, assembly, echo, help} with generated valid and invalid arguments, ended by `quit` or by end of input. \
         Oracle: program output, exit status, input consumption, executed-instruction count and the full final snapshot (registers, PC, CC, all memory) of the debugged run equal those of the plain run of the same source (both by lace; the plain run is independently checked against RefVM in C03). \
         When the script resumes nothing before `quit` and the program reads input, the session is repeated with the script on standard input followed by the program's input (shared stream): it must again equal the plain run, byte for byte of consumed input. When the script does resume execution, the stream is laid out in turns - a command line, then the input bytes the reference debugger says the program consumes while that command runs, ..., `quit`, the rest of the input - and the session must again equal the plain run (neither the debugger nor the program may read ahead of its turn). A sample of the same pairs also runs through the real binary (`lace debug --minimal --command <script>` vs `lace run --minimal`: stdout and exit status byte-identical). Non-trivial: the script resumes execution at least twice and the debugger pauses at least once (breakpoint, HALT, step complete, bounds). Distinct = hash(source, script, input)."
    }
    fn assumptions(&self) -> Vec<String> {
        vec![
            "scripts ended by end of input get no program input (the debugger reads the shared stdin for commands by design)".into(),
            "minimal mode on both sides; programs printing ESC, reading non-ASCII input or reaching unspecified VM behaviour are excluded; a session that exhausts 8x(instructions + commands) + 64 loop iterations counts as non-terminating (deterministic fuel, hooks H3/H6)".into(),
        ]
    }
    fn run_worker(&self, ctx: &Ctx, rep: &mut Report) {
        let n = ctx.share(ctx.tier.pick(25_000, 250_000));
        drive(ctx, rep, "sessions", cases(), n, &mut |c: &Case| judge_case(c));
        std::env::set_var("VERIF_MAX_SHRINK", "40");
        let n = ctx.share(ctx.tier.pick(96, 1500));
        drive(ctx, rep, "cli-pairs", cases(), n, &mut |c: &Case| judge_cli(c));
        std::env::remove_var("VERIF_MAX_SHRINK");
    }
    fn needs_cli(&self) -> bool {
        true
    }
    fn fuzz_strategy(&self) -> Option<BoxedStrategy<Value>> {
        Some(crate::fuzzmode::jv(cases()))
    }
    fn replay(&self, ctx: &Ctx, case: &Value) -> Obs {
        match serde_json::from_value::<Case>(case.clone()) {
            Ok(c) => {
                // in-process judge, then (outside the coverage-guided stage, profile "F") the pair of
                // real processes, so that a failure found by either stream replays
                let o = judge_case(&c);
                if o.fail.is_some() || ctx.profile == "F" || std::env::var("VERIF_CLI_DEV").is_err() {
                    o
                } else {
                    let t = judge_cli(&c);
                    if t.fail.is_some() { t } else { o }
                }
            }
            Err(e) => Obs::fail("C09:bad-replay-file", format!("cannot parse case: {e}")),
        }
    }
}
