//! C10 — Stepping commands execute exactly what they promise.
//! Model-based, stateful: command histories against RefDbg, observed after every command.

use proptest::prelude::*;
use serde::{Deserialize, Serialize};
use serde_json::Value;

use super::c03::{input_bytes, snap_diff};
use crate::dbgcheck::*;
use crate::engine::*;
use crate::lacebox::Stop;
use crate::proggen::{self, ProgSpec};
use crate::refasm::Layout;
use crate::refdbg::{is_call, Cmd, Effect, Pause};

pub struct C10;

#[derive(Clone, Debug, Serialize, Deserialize)]
pub struct Case {
    pub spec: ProgSpec,
    pub cmds: Vec<RawCmd>,
    pub input: Vec<u8>,
}

pub const MODEL_BUDGET: u64 = 20_000;

pub fn judge_case(c: &Case) -> Obs {
    judge_with(c, "C10", &|p, r| make_control_cmd(p, r))
}

pub fn judge_with(c: &Case, id: &str, make: &dyn Fn(&Prog, &RawCmd) -> Cmd) -> Obs {
    let mut obs = Obs::default();
    let p = match prepare(&c.spec, Layout { seed: c.cmds.len() as u64, style: 1, end: false }) {
        Ok(p) => p,
        Err(why) => {
            obs.excluded = Some(why);
            return obs;
        }
    };
    if let Some(l) = proggen::fit_label(&c.spec) {
        obs.label(l);
    }
    let mut cmds: Vec<Cmd> = c.cmds.iter().map(|r| make(&p, r)).collect();
    cmds.push(Cmd::Exit);
    let aliases: Vec<u8> = c.cmds.iter().map(|r| r.alias).collect();
    let mut model = run_model(&p, &cmds, &c.input, MODEL_BUDGET + proggen::extra_budget(&c.spec));
    if let Some(why) = model.ambiguous {
        obs.ambiguous = why.starts_with("step over");
        if !obs.ambiguous {
            obs.excluded = Some(why);
        }
        obs.label("history-cut-at-ambiguous-command");
        if model.alt.is_some() {
            obs.label("step-over-two-readings-either-accepted");
        }
    }
    if model.dbg.io.out.iter().any(|o| *o == crate::refvm::Out::Ch(0x1b)) {
        obs.excluded = Some("program prints ESC (minimal mode strips escape sequences)");
        return obs;
    }
    if c.input.iter().take(model.dbg.io.pos).any(|b| *b >= 0x80) {
        obs.excluded = Some("non-ASCII input read");
        return obs;
    }
    let script = script_text(&cmds, &aliases, model.kept, true, Some("exit"));
    let shown = show_case(&p, &script, &c.input);
    obs.show = Some(shown.clone());
    obs.key = hash_of(&(&p.text, &script, &c.input));
    let ncmds = model.kept as u64 * 2 + 2;
    let fuel = 8 * (model.dbg.executed + ncmds) + 64;
    // a quarter of the histories run in the normal (non-minimal) output mode; there the states after
    // the single commands cannot be read from the transcript, and the comparison is on the final
    // snapshot (hook H1), the instruction count and the program's output. (Programs that may
    // execute REG are kept in minimal mode: its listing differs between the modes.)
    let may_reg = model.dbg.executed_reg || p.img.words.iter().any(|w| *w & 0xF0FF == 0xF027);
    let minimal = may_reg || obs.key % 4 != 0;
    obs.label(if minimal { "output-mode-minimal" } else { "output-mode-normal" });
    let s = if minimal { run_lace(&p, &script, &c.input, fuel) } else { run_lace_mode(&p, &script, &c.input, fuel, false) };
    let Some(out) = outcome_of(&mut obs, id, &s, &shown) else { return obs };
    // classes and non-triviality
    let mut resuming = 0;
    let mut interesting = false;
    for (k, e) in model.effects.iter().enumerate() {
        if let Some(l) = pause_label(e) {
            obs.label(l);
        }
        if let Effect::Ran { executed, pause } = e {
            resuming += 1;
            let (pc, w) = model.pre[k];
            match &cmds[k] {
                Cmd::Step if is_call(w) => {
                    obs.label("step-over-call");
                    interesting = true;
                }
                Cmd::Step if w >> 12 == 0 && model.states[k].pc != pc.wrapping_add(1) => {
                    obs.label("step-on-taken-branch");
                    interesting = true;
                }
                Cmd::Step if w >> 12 == 0xC => {
                    obs.label("step-on-jmp-ret");
                    interesting = true;
                }
                Cmd::StepInto(n) if *pause != Pause::Done && *executed < n.unwrap_or(1).max(1) as u64 => {
                    obs.label("step-into-cut-short");
                    interesting = true;
                }
                Cmd::StepOut => {
                    obs.label("step-out-ran");
                    interesting = true;
                }
                _ => {}
            }
        }
    }
    obs.nontrivial = model.dbg.executed >= 5 && resuming >= 2 && interesting;
    match &out.stop {
        Stop::OutOfFuel => {
            obs.set_fail(
                format!("{id}:session-does-not-return"),
                format!("the session used {} loop iterations for {} instructions and {} commands without returning\n{shown}", out.ticks, model.dbg.executed, ncmds),
            );
            return obs;
        }
        Stop::Returned => {}
        other => {
            obs.set_fail(format!("{id}:wrong-session-end"), format!("session should end with `exit` (return), got {other:?}\n{shown}\n{}", clip(&String::from_utf8_lossy(&out.stderr))));
            return obs;
        }
    }
    // compare; where the last command is a step over a call with two readings, either is accepted
    let attempt = |model: &ModelRun| -> Option<(String, String)> {
        let mut o = Obs::default();
        if minimal && !compare_states(&mut o, id, model, &cmds, out, &shown) {
            return o.fail;
        }
        if let Some(fin) = &out.fin {
            if let Some(d) = snap_diff(fin, &model.dbg.vm) {
                return Some((format!("{id}:wrong-final-state"), format!("after the whole history: {d}\n{shown}")));
            }
        }
        if out.execs != model.dbg.executed {
            return Some((
                format!("{id}:wrong-instruction-count"),
                format!("lace executed {} instructions over the history, the reference {}\n{shown}", out.execs, model.dbg.executed),
            ));
        }
        compare_output(&mut o, id, &model.dbg.io.out, out, &shown);
        o.fail
    };
    let mut failure = attempt(&model);
    if failure.is_some() && model.use_alternative() {
        if attempt(&model).is_none() {
            failure = None;
        } else if let Some((sig, msg)) = failure.take() {
            failure = Some((sig, format!("(neither reading of `step` over this call matches) {msg}")));
        }
    }
    if let Some((sig, msg)) = failure {
        obs.set_fail(sig, msg);
    }
    obs
}

pub fn cases(max_cmds: usize) -> impl Strategy<Value = Case> {
    let mixed = prop::collection::vec(raw_cmd(), 1..max_cmds);
    // step-heavy histories walk through the program one `step` at a time, so that every call,
    // branch and return of the program is stepped on
    let steppy = prop::collection::vec(
        (prop::sample::select(vec![0u8, 0, 0, 0, 0, 0, 3, 6, 8, 11]), raw_cmd()).prop_map(|(k, mut r)| {
            r.kind = k;
            r
        }),
        4..40,
    );
    // breakpoint-churn histories: many add/remove over a handful of addresses (so that the same
    // address is added, removed and re-added), interleaved with resuming commands
    let churn = prop::collection::vec(
        (prop::sample::select(vec![11u8, 11, 11, 11, 14, 14, 14, 8, 8, 0, 3]), raw_cmd()).prop_map(|(k, mut r)| {
            r.kind = k;
            r.a = 0; // absolute address form
            r.b = (r.b % 7) * 4000; // a handful of distinct code addresses
            r
        }),
        10..36,
    );
    // aliasing histories: breakpoints exactly 64 / 128 / 256 words apart (main code and a subroutine
    // behind the data often are), one of them removed again, then the program resumed until it ends
    let aliasing = (0u16..64, prop::sample::select(vec![64u16, 64, 128, 192, 256]), any::<bool>(), prop::collection::vec(raw_cmd(), 3..10)).prop_map(|(x, d, remove_first, mut tail)| {
        let at = |kind: u8, b: u16| RawCmd { kind, a: 0xFFFF, b, c: 0, alias: 0 };
        let mut v = vec![at(11, x), at(11, x + d), at(14, if remove_first { x } else { x + d })];
        for r in &mut tail {
            r.kind = [8u8, 8, 8, 0, 3, 6][r.kind as usize % 6];
        }
        v.extend(tail);
        v
    });
    let spec = crate::pick![5 => proggen::with_spin(proggen::prog_spec(24)).boxed(), 1 => proggen::raw_image_spec(super::c03::image_words()).boxed()];
    (spec, crate::pick![6 => mixed, 4 => steppy, 4 => churn, 1 => aliasing], input_bytes()).prop_map(|(spec, cmds, input)| Case { spec, cmds, input })
}

impl Prop for C10 {
    fn id(&self) -> &'static str {
        "C10"
    }
    fn rule(&self) -> &'static str {
        "Histories of 1-12 mixed commands (step-heavy histories of 4-39 commands, breakpoint-churn histories of 6-23 commands over a handful of addresses, and aliasing histories: two breakpoints exactly 64 / 128 / 192 / 256 words apart, one removed again, then resuming commands) over {step, step into k (k absent, 0, 1, 2, 3, 7, 100, 65535, small), step out, continue, break add/remove at code addresses / labels / PC offsets} on ProgGen programs and (1 in 6) arbitrary word images written as `.fill` lines (loops, nested and recursive subroutines in both conventions, HALT in the middle or at the end, both feature settings), each command followed by `registers`, ended by `exit`. \
         Oracle: RefDbg on RefVM — after every command R0-R7, PC and CC; after the history the full snapshot (all memory), the number of executed instructions (hook H4) and the program output. `step` over a call whose two readings (first arrival at the following address / the call has returned) disagree ends the history there, and either reading's outcome is accepted (counted as ambiguous). \
         Non-trivial: >= 5 instructions executed in >= 2 resuming commands, including a step over a call, a step on a taken branch / JMP / RET, a step into that is cut short by a pause, or a step out. Distinct = hash(source, script, input)."
    }
    fn assumptions(&self) -> Vec<String> {
        vec![
            "RefDbg (DESIGN.md Appendix C) is the reading of C10's statement; `registers` is read-only (checked by C13)".into(),
            "histories that reach unspecified VM behaviour (RTI, malformed strings, end of input, a program error exit while attached) are cut there".into(),
            "minimal mode; programs that print ESC or read non-ASCII input are excluded".into(),
        ]
    }
    fn run_worker(&self, ctx: &Ctx, rep: &mut Report) {
        let n = ctx.share(ctx.tier.pick(30_000, 300_000));
        drive(ctx, rep, "histories", cases(13), n, &mut |c: &Case| judge_case(c));
    }
    fn fuzz_strategy(&self) -> Option<BoxedStrategy<Value>> {
        Some(crate::fuzzmode::jv(cases(13)))
    }
    fn replay(&self, _ctx: &Ctx, case: &Value) -> Obs {
        match serde_json::from_value::<Case>(case.clone()) {
            Ok(c) => judge_case(&c),
            Err(e) => Obs::fail("C10:bad-replay-file", format!("cannot parse case: {e}")),
        }
    }
}
