//! C11 — Breakpoints always stop execution before the marked instruction.
//! Model-based histories + `.break` placement sweep; `break list` compared after every change.

use proptest::prelude::*;
use serde::{Deserialize, Serialize};
use serde_json::Value;

use super::c03::{input_bytes, snap_diff};
use super::c10::MODEL_BUDGET;
use crate::dbgcheck::*;
use crate::engine::*;
use crate::lacebox::{AsmResult, Stop};
use crate::proggen::{self, Built, ProgSpec};
use crate::refasm::{Body, Layout, Line, Op, Operand, Program, Stmt};
use crate::refdbg::{Cmd, Effect, Pause};

pub struct C11;

#[derive(Clone, Debug, Serialize, Deserialize)]
pub enum Case {
    Generated {
        spec: ProgSpec,
        /// extra `.break` placements: (position selector, kind: 0 plain, 1 doubled, 2 labelled)
        extra: Vec<(u16, u8)>,
        cmds: Vec<RawCmd>,
        input: Vec<u8>,
        /// 0: nothing; otherwise a crowd of breakpoints before the history: 15..18 / 31..34 /
        /// 63..66 / 100 / 257 of them on consecutive words from the origin on, written as `.break`
        /// lines (as far as there are statements) or added at run time in a scattered order;
        /// the history is followed by further `continue`s
        #[serde(default)]
        crowd: u16,
    },
    /// `F call F` (a one-instruction loop) with a breakpoint on it, stepped `steps` times
    SelfCall { steps: Vec<u8>, predefined: bool },
    /// `edits` successful breakpoint edits (`break add A`, `break remove A`, ...) within one pause -
    /// around and beyond 2^16 of them - then two breakpoints in a loop and `continue`s
    Churn { edits: u32 },
    /// a labelled program whose trailing `.break` sits on address 0xFFFF - `below` (0, 1, 2), at
    /// origin `orig`: listed and run into in both output modes
    TopBreak { orig: u16, below: u8 },
}

fn program_for(c: &Case) -> (Built, Vec<u8>) {
    match c {
        Case::Generated { spec, extra, input, crowd, .. } => {
            let mut built = proggen::build(spec);
            if let Some((k, true)) = crowd_of(*crowd) {
                // a `.break` before each of the first k statements
                let mut out = Vec::new();
                let mut left = k;
                for l in built.program.lines.drain(..) {
                    if left > 0 && matches!(l.body, Body::Stmt(_)) {
                        out.push(Line { label: None, body: Body::Break });
                        left -= 1;
                    }
                    out.push(l);
                }
                built.program.lines = out;
            }
            let mut n = 0;
            for (sel, kind) in extra {
                let pos = (*sel as usize * (built.program.lines.len() + 1)) >> 16;
                n += 1;
                match kind % 3 {
                    0 => built.program.lines.insert(pos, Line { label: None, body: Body::Break }),
                    1 => {
                        built.program.lines.insert(pos, Line { label: None, body: Body::Break });
                        built.program.lines.insert(pos, Line { label: None, body: Body::Break });
                    }
                    _ => {
                        // a label on the `.break` line marks the next statement; it must not sit
                        // directly before another labelled line's label ... which is allowed too,
                        // but only if something follows
                        if pos < built.program.lines.len() {
                            built.program.lines.insert(pos, Line { label: Some((format!("BK{n}"), n % 2 == 0)), body: Body::Break });
                        } else {
                            built.program.lines.insert(pos, Line { label: None, body: Body::Break });
                        }
                    }
                }
            }
            (built, input.clone())
        }
        Case::TopBreak { orig, below } => {
            let n = (0xFFFFu32 - *below as u32).saturating_sub(*orig as u32 + 2).max(1);
            let lines = vec![
                Line { label: None, body: Body::Orig(crate::refasm::Lit::Hex(*orig, 0)) },
                Line::stmt(Some("start"), Stmt::new(Op::Add, &[0, 0], Operand::Lit(crate::refasm::Lit::Dec(1)))),
                Line::stmt(Some("stop"), Stmt::simple(Op::Halt)),
                Line::stmt(Some("pad"), Stmt::new(Op::Blkw, &[], Operand::Lit(crate::refasm::Lit::Hex(n as u16, 0)))),
                Line { label: Some(("tail".into(), false)), body: Body::Break },
            ];
            (Built { program: Program { lines }, orig: *orig, stack: false, breaks: vec![] }, vec![])
        }
        Case::Churn { .. } => {
            // start: r0 = 0; loop: r0 += 1; r1 += 1; r2 = r0 - 3 ...; brn loop; halt
            let lines = vec![
                Line::stmt(Some("start"), Stmt::new(Op::And, &[0, 0], Operand::Lit(crate::refasm::Lit::Dec(0)))),
                Line::stmt(Some("again"), Stmt::new(Op::Add, &[0, 0], Operand::Lit(crate::refasm::Lit::Dec(1)))),
                Line::stmt(None, Stmt::new(Op::Add, &[1, 1], Operand::Lit(crate::refasm::Lit::Dec(1)))),
                Line::stmt(None, Stmt::new(Op::Add, &[2, 0], Operand::Lit(crate::refasm::Lit::Dec(-3)))),
                Line::stmt(None, Stmt::new(Op::Br(4, false), &[], Operand::Label("again".into()))),
                Line::stmt(None, Stmt::simple(Op::Halt)),
            ];
            (Built { program: Program { lines }, orig: 0x3000, stack: false, breaks: vec![] }, vec![])
        }
        Case::SelfCall { predefined, .. } => {
            let mut lines = vec![Line::stmt(None, Stmt::new(Op::And, &[0, 0], Operand::Lit(crate::refasm::Lit::Dec(0))))];
            if *predefined {
                lines.push(Line { label: None, body: Body::Break });
            }
            lines.push(Line::stmt(Some("F"), Stmt::new(Op::Call, &[], Operand::Label("F".into()))));
            lines.push(Line::stmt(None, Stmt::simple(Op::Halt)));
            (Built { program: Program { lines }, orig: 0x3000, stack: true, breaks: vec![] }, vec![])
        }
    }
}

/// (number of breakpoints, written in the source?) of a crowd selector
fn crowd_of(crowd: u16) -> Option<(usize, bool)> {
    if crowd == 0 {
        return None;
    }
    Some(([15usize, 16, 17, 18, 31, 32, 33, 34, 63, 64, 65, 66, 100, 257][crowd as usize % 14], (crowd / 14) % 2 == 1))
}

fn commands_for(c: &Case, p: &Prog) -> (Vec<Cmd>, Vec<u8>) {
    let (mut raw_cmds, mut raw_aliases) = commands_for_raw(c, p);
    if let Case::Generated { crowd, .. } = c {
        if let Some((k, in_source)) = crowd_of(*crowd) {
            // the breakpoints the source does not already hold (on consecutive words from the
            // origin on when the source holds some; otherwise wherever the selector anchors them),
            // added in a scattered order
            let have = if in_source { p.breaks.len() } else { 0 };
            let addrs: Vec<u16> = if in_source {
                let stride = [7usize, 11, 13, 17, 19, 23].into_iter().find(|s| k % s != 0).unwrap_or(1);
                (0..k).map(|j| (j * stride) % k).filter(|j| *j >= have).map(|j| p.orig.wrapping_add(j as u16)).collect()
            } else {
                crowd_addrs(p, *crowd)
            };
            let mut pre: Vec<Cmd> = addrs.iter().map(|a| Cmd::BreakAdd(crate::refdbg::Loc::Abs(*a, 0))).collect();
            pre.push(Cmd::BreakList);
            let np = pre.len();
            pre.extend(raw_cmds);
            let all: Vec<u16> = if in_source { (0..k).map(|j| p.orig.wrapping_add(j as u16)).collect() } else { addrs };
            pre.extend(crowd_tail(&all, *crowd));
            raw_cmds = pre;
            let mut al = vec![0u8; np];
            al.extend(raw_aliases);
            al.resize(raw_cmds.len(), 0);
            raw_aliases = al;
        }
    }
    // expand the aliasing scenario: a breakpoint in the code plus one a power-of-two multiple of
    // 64 words away (anywhere in user space); the far one is removed again (or the near one is
    // removed and re-added); the breakpoint in the code must keep working
    let mut cmds: Vec<Cmd> = Vec::new();
    let mut aliases: Vec<u8> = Vec::new();
    for (cmd, al) in raw_cmds.into_iter().zip(raw_aliases) {
        if let Cmd::Echo(t) = &cmd {
            if let Some(rest) = t.strip_prefix("ALIAS ") {
                let v: Vec<i64> = rest.split(' ').filter_map(|x| x.parse().ok()).collect();
                let (a, b, cc) = (v[0] as u16, v[1] as u16, v[2]);
                let n = p.img.words.len().max(1);
                let base = p.orig.wrapping_add(((b as usize % 7) * n / 7) as u16);
                let far = base.wrapping_add(64u16.wrapping_mul(1 << (a % 6)));
                let abs = |x: u16| crate::refdbg::Loc::Abs(x, 0);
                let seq: Vec<Cmd> = match cc.rem_euclid(3) {
                    0 => vec![Cmd::BreakAdd(abs(base)), Cmd::BreakAdd(abs(far)), Cmd::BreakRemove(abs(far)), Cmd::Continue],
                    1 => vec![Cmd::BreakAdd(abs(far)), Cmd::BreakAdd(abs(base)), Cmd::BreakRemove(abs(far)), Cmd::Continue, Cmd::Continue],
                    _ => vec![Cmd::BreakAdd(abs(base)), Cmd::BreakAdd(abs(far)), Cmd::BreakRemove(abs(base)), Cmd::BreakAdd(abs(base)), Cmd::BreakRemove(abs(far)), Cmd::Continue],
                };
                for s in seq {
                    cmds.push(s);
                    aliases.push(0);
                }
                continue;
            }
        }
        cmds.push(cmd);
        aliases.push(al);
    }
    // `step out` right after the PC was moved by hand is outside C10/C11's statements (which
    // instruction "the" return is judged on is unspecified there): make it a single step
    // (lace judges it on the instruction that was at the PC before the move)
    let mut moved = false;
    for c in cmds.iter_mut() {
        match c {
            Cmd::Goto(_) | Cmd::Reset => moved = true,
            Cmd::StepOut if moved => {
                *c = Cmd::StepInto(Some(1));
                moved = false;
            }
            c if c.is_resuming() => moved = false,
            _ => {}
        }
    }
    (cmds, aliases)
}

/// The alternating edits of a `Churn` case that cancel out (script lines).
fn churn_prefix(c: &Case) -> Vec<String> {
    let Case::Churn { edits } = c else { return vec![] };
    let pairs = edits.saturating_sub(2) / 2;
    let mut v = Vec::with_capacity(pairs as usize * 2);
    for _ in 0..pairs {
        v.push("break add x3002".to_string());
        v.push("break remove x3002".to_string());
    }
    v
}

fn commands_for_raw(c: &Case, p: &Prog) -> (Vec<Cmd>, Vec<u8>) {
    match c {
        Case::Generated { cmds, .. } => (
            cmds.iter()
                .map(|r| match r.kind % 28 {
                    // "aliasing" breakpoints: a second breakpoint a power-of-two multiple of 128
                    // words away from a code address (anywhere in user space), added and removed
                    // again; the one in the code must keep working
                    24 | 25 | 26 => Cmd::Echo(format!("ALIAS {} {} {}", r.a, r.b, r.c)), // expanded below
                    27 => Cmd::Continue,
                    // moving the PC while paused: the breakpoint must still fire when control
                    // comes back to it
                    20 | 21 => Cmd::Goto(make_loc(p, r.a, r.b, r.c, LocMode::Code)),
                    22 => Cmd::Reset,
                    23 => Cmd::Continue,
                    16 | 17 => Cmd::BreakList,
                    // extra weight on removing an existing (possibly predefined) breakpoint
                    18 if !p.breaks.is_empty() => Cmd::BreakRemove(crate::refdbg::Loc::Abs(p.breaks[(r.b as usize * p.breaks.len()) >> 16], 0)),
                    19 => Cmd::Continue,
                    _ => make_control_cmd(p, r),
                })
                .collect(),
            cmds.iter().map(|r| r.alias).collect(),
        ),
        Case::TopBreak { orig, .. } => {
            let v = vec![Cmd::BreakList, Cmd::BreakAdd(crate::refdbg::Loc::Abs(orig.wrapping_add(1), 0)), Cmd::BreakList, Cmd::Continue, Cmd::BreakList, Cmd::Continue];
            let n = v.len();
            (v, vec![0; n])
        }
        Case::Churn { edits } => {
            let abs = |x: u16| crate::refdbg::Loc::Abs(x, 0);
            let mut v = Vec::with_capacity(*edits as usize + 8);
            // (`edits` counts every successful edit of the pause, the two final additions included.
            // The alternations `break add x3002` / `break remove x3002` go into the script as they
            // are - `churn_prefix` - without a register listing after each; an odd number of them
            // leaves x3002 set, and that last addition is the first command the model sees)
            if edits.saturating_sub(2) % 2 == 1 {
                v.push(Cmd::BreakAdd(abs(0x3002)));
            }
            v.extend([Cmd::BreakAdd(abs(0x3001)), Cmd::BreakAdd(abs(0x3003)), Cmd::BreakList, Cmd::Continue, Cmd::Continue, Cmd::Continue, Cmd::Continue]);
            let n = v.len();
            (v, vec![0; n])
        }
        Case::SelfCall { steps, predefined } => {
            let mut v = Vec::new();
            if !*predefined {
                v.push(Cmd::BreakAdd(crate::refdbg::Loc::Label("F".into(), 0)));
            }
            v.push(Cmd::BreakList);
            for s in steps {
                v.push(match s % 4 {
                    0 => Cmd::StepInto(Some(1 + (*s as u16 >> 2) % 5)),
                    1 => Cmd::Step,
                    2 => Cmd::StepInto(None),
                    _ => Cmd::StepOut,
                });
            }
            let n = v.len();
            (v, vec![0; n])
        }
    }
}

pub fn judge_case(c: &Case) -> Obs {
    let mut obs = Obs::default();
    let (built, input) = program_for(c);
    let p = match prepare_built(built, Layout { seed: input.len() as u64 + 3, style: 2, end: false }) {
        Ok(p) => p,
        Err(why) => {
            obs.excluded = Some(why);
            return obs;
        }
    };
    let (mut cmds, aliases) = commands_for(c, &p);
    cmds.push(Cmd::BreakList);
    cmds.push(Cmd::Exit);
    let mut model = run_model(&p, &cmds, &input, MODEL_BUDGET);
    if let Some(why) = model.ambiguous {
        obs.ambiguous = why.starts_with("step over");
        if !obs.ambiguous {
            obs.excluded = Some(why);
        }
    }
    if model.dbg.io.out.iter().any(|o| *o == crate::refvm::Out::Ch(0x1b)) || input.iter().take(model.dbg.io.pos).any(|b| *b >= 0x80) {
        obs.excluded = Some("program prints ESC or reads non-ASCII input");
        return obs;
    }
    // script: every command followed by `registers`; `break list` wrapped in markers
    let mut lines: Vec<String> = Vec::new();
    for (i, cmd) in cmds.iter().take(model.kept).enumerate() {
        match cmd {
            Cmd::Exit => break,
            Cmd::BreakList => {
                lines.push("echo LIST".into());
                lines.push(cmd.text(aliases.get(i).copied().unwrap_or(0)));
                lines.push("echo ENDLIST".into());
            }
            _ => lines.push(cmd.text(aliases.get(i).copied().unwrap_or(0))),
        }
        lines.push("registers".into());
    }
    lines.push("exit".into());
    let prefix = churn_prefix(c);
    let shown_script = if prefix.is_empty() { lines.join("\n") } else { format!("({} x) break add x3002 / break remove x3002\n{}", prefix.len() / 2, lines.join("\n")) };
    if !prefix.is_empty() {
        lines.splice(0..0, prefix);
    }
    let script = lines.join("\n");
    let shown = show_case(&p, &shown_script, &input);
    obs.show = Some(shown.clone());
    obs.key = hash_of(&(&p.text, &script, &input));
    let fuel = 8 * (model.dbg.executed + lines.len() as u64) + 64;
    let s = run_lace(&p, &script, &input, fuel);
    let Some(out) = outcome_of(&mut obs, "C11", &s, &shown) else { return obs };

    // `.break` occupies no memory and marks the next statement
    if let Some(AsmResult::Ok(img)) = &s.asm {
        if img.words != p.img.words {
            obs.set_fail("C11:break-changes-image", format!("the image differs from the encoding of the same source without .break\n{shown}"));
            return obs;
        }
        let mut want = p.img.breaks.clone();
        want.sort();
        want.dedup();
        if img.breakpoints != want {
            obs.set_fail(
                "C11:wrong-break-directive-address",
                format!("`.break` directives mark statement indices {:?}, the assembler recorded {:?}\n{shown}", want, img.breakpoints),
            );
            return obs;
        }
    }
    let hits = model.effects.iter().filter(|e| matches!(e, Effect::Ran { pause: Pause::Breakpoint, .. })).count();
    if hits > 0 {
        obs.label("breakpoint-hit");
    }
    if hits >= 2 {
        obs.label("breakpoint-hit-twice");
    }
    let removed_predefined = cmds.iter().zip(&model.effects).any(|(c, e)| match (c, e) {
        (Cmd::BreakRemove(l), Effect::Applied) => model.dbg.resolve(l).map(|a| p.breaks.contains(&a)).unwrap_or(false),
        _ => false,
    });
    if removed_predefined {
        obs.label("predefined-breakpoint-removed");
    }
    if !p.breaks.is_empty() {
        obs.label("source-has-break-directives");
    }
    if matches!(c, Case::SelfCall { .. }) {
        obs.label("one-instruction-loop");
    }
    if matches!(c, Case::Churn { .. }) {
        obs.label("tens-of-thousands-of-breakpoint-edits-in-one-pause");
    }
    if let Case::Generated { crowd, .. } = c {
        if let Some((k, in_source)) = crowd_of(*crowd) {
            obs.label(if k <= 18 { "crowd-of-15-to-18-breakpoints" } else if k <= 66 { "crowd-of-31-to-66-breakpoints" } else { "crowd-of-100-or-257-breakpoints" });
            obs.label(if in_source { "crowd-written-as-break-directives" } else { "crowd-added-at-run-time" });
        }
    }
    obs.nontrivial = hits >= 2 || (removed_predefined && model.dbg.executed > 0);
    match &out.stop {
        Stop::Returned => {}
        Stop::OutOfFuel => {
            obs.set_fail("C11:session-does-not-return", format!("fuel {fuel} exhausted\n{shown}"));
            return obs;
        }
        other => {
            obs.set_fail("C11:wrong-session-end", format!("expected `exit` to end the session, got {other:?}\n{shown}"));
            return obs;
        }
    }
    {
        let mut o = Obs::default();
        if !compare_states(&mut o, "C11", &model, &cmds, out, &shown) {
            // a step over a call with two readings as last command: try the other reading
            let mut o2 = Obs::default();
            if !(model.use_alternative() && compare_states(&mut o2, "C11", &model, &cmds, out, &shown)) {
                obs.fail = o.fail;
                return obs;
            }
        }
    }
    // break lists
    let err = String::from_utf8_lossy(&out.stderr).to_string();
    let mut lists: Vec<Vec<u16>> = Vec::new();
    let mut cur: Option<Vec<u16>> = None;
    for l in err.lines() {
        if l == "[LIST]" {
            cur = Some(Vec::new());
        } else if l == "[ENDLIST]" {
            if let Some(v) = cur.take() {
                lists.push(v);
            }
        } else if let Some(v) = &mut cur {
            if let Some(h) = l.strip_prefix('x').and_then(|h| u16::from_str_radix(h, 16).ok()) {
                v.push(h);
            }
        }
    }
    let mut li = 0;
    for (k, cmd) in cmds.iter().take(model.kept).enumerate() {
        if !matches!(cmd, Cmd::BreakList) {
            continue;
        }
        let want = &model.bps_after[k];
        let Some(got) = lists.get(li) else {
            obs.set_fail("C11:break-list-missing", format!("`break list` #{li} produced no listing\n{shown}\n{}", clip(&err)));
            return obs;
        };
        li += 1;
        if got != want {
            let mut sorted = got.clone();
            sorted.sort();
            sorted.dedup();
            let sig = if sorted != *got { "C11:break-list-not-sorted-or-duplicated" } else { "C11:wrong-break-list" };
            obs.set_fail(sig, format!("`break list` after command #{k} shows {got:04X?}, expected {want:04X?}\n{shown}\n{}", clip(&err)));
            return obs;
        }
    }
    if let Some(fin) = &out.fin {
        if let Some(d) = snap_diff(fin, &model.dbg.vm) {
            obs.set_fail("C11:wrong-final-state", format!("{d}\n{shown}"));
            return obs;
        }
    }
    if out.execs != model.dbg.executed {
        obs.set_fail("C11:wrong-instruction-count", format!("lace executed {} instructions, the reference {}\n{shown}", out.execs, model.dbg.executed));
    }
    if matches!(c, Case::TopBreak { .. }) {
        obs.label("breakpoint-on-the-last-addresses");
        mode_twin_always(&mut obs, "C11", &p, &script, &input, fuel, out, &shown);
    } else {
        mode_twin(&mut obs, "C11", &p, &script, &input, fuel, out, &shown);
    }
    obs
}

fn cases() -> impl Strategy<Value = Case> {
    crate::pick![
        9 => (crate::pick![6 => proggen::prog_spec(20).boxed(), 1 => proggen::raw_image_spec(super::c03::image_words()).boxed()], prop::collection::vec((any::<u16>(), 0u8..3), 0..4), prop::collection::vec(raw_cmd(), 1..14), input_bytes(), crate::pick![6 => Just(0u16), 1 => 1u16..=2000])
            .prop_map(|(spec, extra, mut cmds, input, crowd)| {
                if crowd > 0 {
                    cmds.truncate(6);
                }
                Case::Generated { spec, extra, cmds, input, crowd }
            }),
        1 => (prop::collection::vec(any::<u8>(), 1..8), any::<bool>()).prop_map(|(steps, predefined)| Case::SelfCall { steps, predefined }),
    ]
}

impl Prop for C11 {
    fn id(&self) -> &'static str {
        "C11"
    }
    fn rule(&self) -> &'static str {
        "ProgGen programs with `.break` directives sprinkled by the generator plus 0-3 extra placements at any line position (before the first statement / .orig, between any two, after the last, doubled, on a labelled line), at default and non-default origins x histories of 1-13 commands over every resuming command, break add/remove (absolute, label+-offset, ^offset; extra weight on removing predefined ones), break list, the commands that move the PC while paused (goto, reset), aliasing scenarios (a second breakpoint 64*2^k words away from one in the code, added and removed again), and - a seventh of the sessions - a crowd of 15..18 / 31..34 / 63..66 / 100 / 257 breakpoints on consecutive words from the origin on (written as `.break` lines, or added at run time in a scattered order from the origin on or ending at a word of the program) before a shorter history that is followed by up to 40 further `continue`s among which one or two members of the crowd are removed (and one put back); plus the one-instruction loop `F call F` with a breakpoint on it; plus 65,535 / 65,536 / 65,537 (thorough: also 131,072) successful breakpoint edits within one pause followed by two breakpoints in a loop (whatever counts the edits may wrap); plus a labelled program whose trailing `.break` sits on one of the last three addresses, at four origins, listed and run into in both output modes. \
         Oracle: RefDbg — pause before the marked instruction, resuming executes it once, it fires again on the next arrival (also when that is the very next instruction), removed breakpoints never pause: registers/PC/CC after every command, full final snapshot, executed-instruction count; `.break` occupies no memory (image equals the encoding without it) and marks the next statement (addresses recorded by the assembler); every `break list` equals the model's sorted duplicate-free list. \
         One case in six is run once more in the normal (non-minimal) output mode - tables, colours, errors rendered in full: it must end the same way, after the same number of instructions, with the same final machine. Non-trivial: a breakpoint is hit at least twice in the session, or a predefined breakpoint is removed and execution continues. Distinct = hash(source, script, input)."
    }
    fn assumptions(&self) -> Vec<String> {
        vec!["RefDbg (Appendix C); same exclusions as C10".into()]
    }
    fn run_worker(&self, ctx: &Ctx, rep: &mut Report) {
        // counters that count breakpoint edits may wrap: 2^16 - 1, 2^16, 2^16 + 1, 2^17 edits in one pause
        // a trailing `.break` on the last addresses there are, at several origins, in both output modes
        let mut k = 100u64;
        for orig in [0u16, 1, 0x3000, 0xFDF0] {
            for below in 0..3u8 {
                k += 1;
                if ctx.mine(k) {
                    judge_one(ctx, rep, &Case::TopBreak { orig, below }, &mut |c| judge_case(c));
                }
            }
        }
        rep.exhaustive.push("a labelled program whose trailing `.break` sits on 0xFFFF / 0xFFFE / 0xFFFD, at origins 0, 1, 0x3000, 0xFDF0: listed and run into in both output modes".into());
        let churns: &[u32] = ctx.tier.pick(&[65_535u32, 65_536, 65_537][..], &[65_535u32, 65_536, 65_537, 131_072][..]);
        for (i, edits) in churns.iter().copied().enumerate() {
            if ctx.worker == (i * 3 + 1) % ctx.nworkers {
                judge_one(ctx, rep, &Case::Churn { edits }, &mut |c| judge_case(c));
            }
        }
        rep.exhaustive.push(format!("{churns:?} successful breakpoint edits within one pause (the last two add breakpoints in a loop), then four `continue`s"));
        let n = ctx.share(ctx.tier.pick(30_000, 300_000));
        drive(ctx, rep, "sessions", cases(), n, &mut |c: &Case| judge_case(c));
    }
    fn fuzz_strategy(&self) -> Option<BoxedStrategy<Value>> {
        Some(crate::fuzzmode::jv(cases()))
    }
    fn replay(&self, _ctx: &Ctx, case: &Value) -> Obs {
        match serde_json::from_value::<Case>(case.clone()) {
            Ok(c) => judge_case(&c),
            Err(e) => Obs::fail("C11:bad-replay-file", format!("cannot parse case: {e}")),
        }
    }
}
