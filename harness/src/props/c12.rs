//! C12 — reset restores the initial machine exactly (history invariant; no reference model is
//! needed: the oracle is the snapshot taken right after loading and a fresh plain run).

use proptest::prelude::*;
use serde::{Deserialize, Serialize};
use serde_json::Value;

use crate::dbgcheck::*;
use crate::engine::*;
use crate::lacebox::{self, Load, RunSpec, Snapshot, Stop};
use crate::proggen::{self, ProgSpec};
use crate::refasm::Layout;
use crate::refdbg::{Cmd, Loc, PLoc};

pub struct C12;

#[derive(Clone, Debug, Serialize, Deserialize)]
pub struct Case {
    pub spec: ProgSpec,
    pub cmds: Vec<RawCmd>,
    /// second history, used by the `…; reset; <history>; reset` variant
    pub more: Vec<RawCmd>,
    /// 0: reset; exit   1: reset; reset; exit   2: reset; <more>; reset; exit   3: reset; quit (vs fresh run)
    /// 4: reset; <more>; exit  vs a fresh session <more>; exit
    /// 5: reset; goto <PC before the reset>; <more>; exit  vs a fresh session goto ..; <more>; exit
    /// 6: <history>; reset; <history>; exit  vs a fresh session <history>; exit (the history itself, once more)
    pub variant: u8,
    /// the history ends with `move <code location> xF025; continue`: when `reset` is issued the
    /// debugger may be paused on a HALT that is not in the loaded image
    #[serde(default)]
    pub plant: Option<RawCmd>,
    /// the history also exchanges the contents of two words of the image (selectors): a change
    /// that leaves every sum, xor or count of the memory as it was
    #[serde(default)]
    pub exchange: Option<(u16, u16)>,
    /// a "quiet" history: only stores that land outside the program (through R7, the one register
    /// that is not zero at load, or through registers that are put back afterwards) and moves of the
    /// PC that are undone - when `reset` is issued every register, the PC and the condition code
    /// already equal their load-time values, and only memory differs
    #[serde(default)]
    pub quiet: bool,
}

/// Commands of a quiet history (see `Case::quiet`); `undo` collects what puts the CPU state back.
fn quiet_cmds(p: &Prog, raw: &[RawCmd], undo: &mut Vec<Cmd>) -> Vec<Cmd> {
    use crate::refasm::{Lit, Op, Operand, Stmt};
    let mut out = Vec::new();
    for r in raw {
        match r.kind % 5 {
            0 | 1 => {
                // STR R7 -> [Rb + off]: registers are zero, so this writes x0000..x001F or xFFE0..xFFFF
                let base = (r.a % 7) as u8;
                let off = (r.c % 64) as i32 - 32;
                out.push(Cmd::Eval(Stmt::new(Op::Str, &[7, base], Operand::Lit(Lit::Dec(off)))));
            }
            2 => {
                // STI R7 through a pointer word of the program that points outside it
                let l = ["P2", "P3", "PW0", "PW1", "PW2", "PW3"][r.b as usize % 6];
                if p.symbols.iter().any(|(n, _)| n == l) {
                    out.push(Cmd::Eval(Stmt::new(Op::Sti, &[7], Operand::Label(l.into()))));
                }
            }
            3 => {
                // a register is changed, used as a base, and put back
                let reg = (r.a % 7) as u8;
                out.push(Cmd::Move(PLoc::Reg(reg), value16(r.b, r.c)));
                out.push(Cmd::Eval(Stmt::new(Op::Str, &[7, reg], Operand::Lit(Lit::Dec((r.c % 8) as i32)))));
                undo.push(Cmd::Move(PLoc::Reg(reg), 0));
            }
            _ => {
                out.push(Cmd::Goto(make_loc(p, 0, r.b, 0, LocMode::Code)));
                undo.push(Cmd::Goto(Loc::Abs(p.orig, 0)));
            }
        }
    }
    out
}

const FUEL: u64 = 30_000;

fn diff(a: &Snapshot, b: &Snapshot) -> Option<String> {
    if a.regs != b.regs {
        return Some(format!("registers {:04X?}, at load {:04X?}", a.regs, b.regs));
    }
    if a.pc != b.pc {
        return Some(format!("PC x{:04X}, at load x{:04X}", a.pc, b.pc));
    }
    if a.cc != b.cc {
        return Some(format!("CC {:03b}, at load {:03b}", a.cc, b.cc));
    }
    if a.mem != b.mem {
        let i = (0..0x10000).find(|i| a.mem[*i] != b.mem[*i]).unwrap();
        return Some(format!("memory[x{i:04X}] = x{:04X}, at load x{:04X}", a.mem[i], b.mem[i]));
    }
    None
}

pub fn judge_case(c: &Case) -> Obs {
    let mut obs = Obs::default();
    let mut spec = c.spec.clone();
    // no program input: the debugger and the program share stdin
    spec.main.retain(|op| !matches!(op, proggen::PgOp::In(_) | proggen::PgOp::InShow(_)));
    for s in &mut spec.subs {
        s.retain(|op| !matches!(op, proggen::PgOp::In(_) | proggen::PgOp::InShow(_)));
    }
    let p = match prepare(&spec, Layout { seed: 5, style: 1, end: false }) {
        Ok(p) => p,
        Err(why) => {
            obs.excluded = Some(why);
            return obs;
        }
    };
    if let Some(l) = proggen::fit_label(&spec) {
        obs.label(l);
    }
    // histories may contain inspection commands too (they change nothing, but run code of their own)
    let make = |r: &RawCmd| if r.kind & 0xC0 == 0xC0 { make_inspect_cmd(&p, r) } else { make_mutating_cmd(&p, r) };
    let (cmds, more): (Vec<Cmd>, Vec<Cmd>) = if c.quiet {
        obs.label("quiet-history");
        let mut undo = Vec::new();
        let mut v = quiet_cmds(&p, &c.cmds, &mut undo);
        v.extend(undo);
        let mut undo2 = Vec::new();
        let mut w = quiet_cmds(&p, &c.more, &mut undo2);
        w.extend(undo2);
        (v, w)
    } else {
        (c.cmds.iter().map(make).collect(), c.more.iter().map(make).collect())
    };
    let (mut cmds, mut more) = (cmds, more);
    let variant = c.variant % 7;
    if variant >= 4 {
        // breakpoints are debugger state, not machine state: whether `reset` keeps them is not
        // stated, so these histories leave them alone
        cmds.retain(|c| !matches!(c, Cmd::BreakAdd(_) | Cmd::BreakRemove(_)));
        more.retain(|c| !matches!(c, Cmd::BreakAdd(_) | Cmd::BreakRemove(_)));
        if more.is_empty() {
            more.push(Cmd::Continue);
        }
    }
    if let (Some((a, b)), false) = (c.exchange, c.quiet) {
        let n = p.img.words.len();
        if n >= 2 {
            let i = (a as usize * n) >> 16;
            // the partner lies within the same 256-word page when the image allows it
            let j = (i + 1 + (b as usize % 200.min(n - 1))) % n;
            let (wi, wj) = (p.img.words[i], p.img.words[j]);
            if wi != wj {
                cmds.push(Cmd::Move(PLoc::Mem(Loc::Abs(p.orig.wrapping_add(i as u16), 0)), wj));
                cmds.push(Cmd::Move(PLoc::Mem(Loc::Abs(p.orig.wrapping_add(j as u16), 0)), wi));
                obs.label("history-exchanges-two-words");
            }
        }
    }
    if let (Some(r), false) = (&c.plant, c.quiet) {
        cmds.push(Cmd::Move(PLoc::Mem(make_loc(&p, r.a, r.b, r.c, LocMode::Code)), 0xF025));
        cmds.push(Cmd::Continue);
        obs.label("history-ends-with-planted-halt-and-continue");
    }
    let text = |v: &[Cmd]| v.iter().enumerate().map(|(i, c)| c.text(i as u8)).collect::<Vec<_>>().join("\n");
    let prefix = text(&cmds);
    let nl = |s: &str| if s.is_empty() { String::new() } else { format!("{s}\n") };
    let script_a = format!("{}exit", nl(&prefix));
    let tail = match variant {
        0 => "reset\nexit".to_string(),
        1 => "reset\nreset\nexit".to_string(),
        2 => format!("reset\n{}reset\nexit", nl(&text(&more))),
        3 => "reset\nquit".to_string(),
        4 => format!("reset\n{}exit", nl(&text(&more))),
        5 => format!("reset\ngoto <PC before the reset>\n{}exit", nl(&text(&more))),
        _ => format!("reset\n{}exit", nl(&prefix)),
    };
    let script_b = format!("{}{tail}", nl(&prefix));
    let shown = show_case(&p, &script_b, &[]);
    obs.show = Some(shown.clone());
    obs.key = hash_of(&(&p.text, &script_b));
    // the oracle reads the machine through hook H1, not through the transcript: half of the cases
    // run in the normal (non-minimal) output mode
    let minimal = obs.key % 2 == 0;
    obs.label(if minimal { "output-mode-minimal" } else { "output-mode-normal" });
    if cmds.iter().chain(&more).any(|c| matches!(c, Cmd::Print(_) | Cmd::Registers | Cmd::Assembly(_) | Cmd::BreakList | Cmd::Help | Cmd::Echo(_))) {
        obs.label("history-with-inspection-commands");
    }
    // (always through `--command`: a history may write an input trap into memory and run it, and
    // nothing here predicts that - with the script on standard input the program would read it)
    let run_lace = |p: &Prog, script: &str, input: &[u8], fuel: u64| run_lace_mode(p, script, input, fuel, minimal);
    obs.label(["variant-reset", "variant-reset-twice", "variant-reset-history-reset", "variant-reset-then-run", "variant-reset-then-session", "variant-reset-revisit-then-session", "variant-reset-then-the-history-once-more"][variant as usize]);

    // Session A: the history alone - what did it change?
    let a = run_lace(&p, &script_a, &[], FUEL);
    let Some(oa) = outcome_of(&mut obs, "C12", &a, &shown) else { return obs };
    if oa.stop != Stop::Returned {
        obs.excluded = Some(match oa.stop {
            Stop::OutOfFuel => "history does not come back to the prompt within the fuel",
            _ => "program error exit inside the history",
        });
        return obs;
    }
    let (Some(loaded), Some(before_reset)) = (&a.loaded, &oa.fin) else { return obs };
    let changed_mem = (0..0x10000usize).filter(|i| loaded.mem[*i] != before_reset.mem[*i]).collect::<Vec<_>>();
    let mem_outside_stack = changed_mem.iter().any(|i| !(0xFD00..0xFE00).contains(i));
    let code_end = p.orig as usize + p.img.words.len();
    if changed_mem.iter().any(|i| (p.orig as usize..=code_end).contains(i)) {
        obs.label("history-changed-program-memory");
    }
    if changed_mem.iter().any(|i| *i < p.orig as usize) {
        obs.label("history-changed-memory-below-origin");
    }
    if changed_mem.iter().any(|i| (0xFD00..0xFE00).contains(i)) {
        obs.label("history-changed-stack-area");
    }
    obs.nontrivial = mem_outside_stack && before_reset.regs != loaded.regs && before_reset.pc != loaded.pc;

    // Session B: history; reset ...
    let revisit = format!("goto x{:04X}", before_reset.pc);
    let script_b = script_b.replace("goto <PC before the reset>", &revisit);
    if variant >= 4 {
        // history; reset; [goto X]; <more>; exit  ==  (output of the history) ++ fresh session [goto X]; <more>; exit
        let script_c = if variant == 6 { script_a.clone() } else { format!("{}{}exit", if variant == 5 { nl(&revisit) } else { String::new() }, nl(&text(&more))) };
        let fresh = run_lace(&p, &script_c, &[], FUEL);
        let Some(of) = outcome_of(&mut obs, "C12", &fresh, &shown) else { return obs };
        if of.stop != Stop::Returned {
            obs.excluded = Some("the fresh session does not come back to the prompt");
            return obs;
        }
        if loaded.mem[before_reset.pc as usize] != before_reset.mem[before_reset.pc as usize] {
            obs.label("reset-while-paused-on-a-changed-word");
        }
        // (session B runs the history and then the commands of the fresh session: the fuel of both)
        let b = run_lace(&p, &script_b, &[], 2 * FUEL + 64);
        let Some(ob) = outcome_of(&mut obs, "C12", &b, &shown) else { return obs };
        let shown = format!("{shown}\n(goto <PC before the reset> = {revisit})");
        if ob.stop != Stop::Returned {
            obs.set_fail("C12:session-after-reset-did-not-return", format!("got {:?}; the same commands in a fresh session come back to the prompt\n{shown}", ob.stop));
            return obs;
        }
        let mut expected_out = oa.stdout.clone();
        expected_out.extend(&of.stdout);
        if ob.stdout != expected_out {
            obs.set_fail(
                "C12:session-after-reset-output-differs",
                format!("fresh session prints {:?}; after the history ({:?}) and reset the same commands printed {:?}\n{shown}", String::from_utf8_lossy(&of.stdout), String::from_utf8_lossy(&oa.stdout), String::from_utf8_lossy(&ob.stdout)),
            );
        } else if let (Some(x), Some(y)) = (&ob.fin, &of.fin) {
            if let Some(d) = diff(x, y) {
                obs.set_fail("C12:session-after-reset-final-state-differs", format!("after reset vs the same commands in a fresh session: {}\n{shown}", d.replace("at load", "fresh session")));
            }
        }
        return obs;
    }
    let b = run_lace(&p, &script_b, &[], FUEL);
    let Some(ob) = outcome_of(&mut obs, "C12", &b, &shown) else { return obs };
    if variant != 3 {
        if ob.stop != Stop::Returned {
            if variant == 2 {
                obs.excluded = Some("second history does not come back to the prompt");
            } else {
                obs.set_fail("C12:session-after-reset-did-not-return", format!("got {:?}\n{shown}", ob.stop));
            }
            return obs;
        }
        let (Some(loaded_b), Some(fin)) = (&b.loaded, &ob.fin) else { return obs };
        if let Some(d) = diff(fin, loaded_b) {
            obs.set_fail("C12:reset-does-not-restore", format!("after `reset`: {d}\n{shown}"));
        }
    } else {
        // history; reset; quit  ==  (output of the history) ++ fresh plain run
        let plain = lacebox::run_session(
            Load::Source { text: p.text.clone(), debugger: None },
            RunSpec { stack: p.built.stack, minimal, fuel: FUEL, input: vec![] },
        );
        let Some(op) = outcome_of(&mut obs, "C12", &plain, &shown) else { return obs };
        if op.stop == Stop::OutOfFuel || ob.stop == Stop::OutOfFuel {
            obs.excluded = Some("plain run does not terminate within the fuel");
            return obs;
        }
        let mut expected_out = oa.stdout.clone();
        expected_out.extend(&op.stdout);
        if ob.stop != op.stop {
            obs.set_fail("C12:run-after-reset-exit-differs", format!("fresh run: {:?}, run after reset: {:?}\n{shown}", op.stop, ob.stop));
        } else if ob.stdout != expected_out {
            obs.set_fail(
                "C12:run-after-reset-output-differs",
                format!("fresh run prints {:?}; after the history ({:?}) and reset the run printed {:?}\n{shown}", String::from_utf8_lossy(&op.stdout), String::from_utf8_lossy(&oa.stdout), String::from_utf8_lossy(&ob.stdout)),
            );
        } else if let (Some(x), Some(y)) = (&ob.fin, &op.fin) {
            if let Some(d) = diff(x, y) {
                obs.set_fail("C12:run-after-reset-final-state-differs", format!("run after reset vs fresh run: {}\n{shown}", d.replace("at load", "fresh run")));
            }
        }
    }
    obs
}

fn cases() -> impl Strategy<Value = Case> {
    (proggen::prog_spec(20), prop::collection::vec(raw_cmd(), 1..12), prop::collection::vec(raw_cmd(), 0..6), 0u8..7, prop::bool::weighted(0.15), crate::pick::opt(0.25, raw_cmd()), crate::pick::opt(0.2, (any::<u16>(), any::<u16>())))
        .prop_map(|(spec, mut cmds, more, variant, quiet, plant, exchange)| {
            if quiet {
                cmds.truncate(4);
            }
            Case { spec, cmds, more, variant, quiet, plant, exchange }
        })
}

impl Prop for C12 {
    fn id(&self) -> &'static str {
        "C12"
    }
    fn rule(&self) -> &'static str {
        "ProgGen programs (incl. self-modifying stores, stores below the origin, into the stack area and to 0xFFFF through pointers) x histories of 1-11 commands over {move to any register / any memory location, goto, eval of arbitrary instructions incl. stores and jumps, step, step into k, continue, break add/remove, reset, and (a quarter) the inspection commands print / registers / assembly / break list / help / echo}, half of them in the normal (non-minimal) output mode; 15% are 'quiet' histories - stores through R7 or through registers that are put back, PC moves that are undone - after which every register, the PC and the condition code already equal their load-time values and only memory outside the program differs; followed by: reset | reset; reset | reset; <history>; reset | reset; quit | reset; <history> | reset; goto <where the PC was before the reset>; <history> | reset; the history itself once more (the last three without breakpoint commands; a fifth of the histories also exchange the contents of two words of the image (a change that leaves every sum, xor or count of the memory as it was); a quarter of all histories end with `move <code location> xF025; continue`, so that the reset may be issued while paused on a HALT that the loaded image does not have). \
         Oracle: after the final reset the full snapshot (8 registers, PC, CC, 65,536 words) equals the snapshot taken right after loading; for `reset; quit` the exit status and final state equal a fresh plain run and the output equals (output of the history) ++ (output of a fresh run); for `reset; [goto X;] <history>` the output, the return to the prompt and the final state equal those of the same commands in a fresh session. \
         Non-trivial (measured on a twin session that ends before the reset): the history changed >= 1 memory word outside the stack page, >= 1 register and the PC. Distinct = hash(source, script)."
    }
    fn assumptions(&self) -> Vec<String> {
        vec![
            "programs get no input (debugger and program share stdin); histories that never come back to the prompt within 30,000 loop iterations, or that make the program exit with an error, are excluded and counted".into(),
            "two sessions with the same script prefix behave identically (lace is deterministic)".into(),
        ]
    }
    fn run_worker(&self, ctx: &Ctx, rep: &mut Report) {
        let n = ctx.share(ctx.tier.pick(20_000, 200_000));
        drive(ctx, rep, "histories", cases(), n, &mut |c: &Case| judge_case(c));
    }
    fn fuzz_strategy(&self) -> Option<BoxedStrategy<Value>> {
        Some(crate::fuzzmode::jv(cases()))
    }
    fn replay(&self, _ctx: &Ctx, case: &Value) -> Obs {
        match serde_json::from_value::<Case>(case.clone()) {
            Ok(c) => judge_case(&c),
            Err(e) => Obs::fail("C12:bad-replay-file", format!("cannot parse case: {e}")),
        }
    }
}
