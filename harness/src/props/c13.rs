//! C13 — Debugger writes are confined to user space and to the named target.

use proptest::prelude::*;
use serde::{Deserialize, Serialize};
use serde_json::Value;

use super::c03::snap_diff;
use crate::dbgcheck::*;
use crate::engine::*;
use crate::lacebox::Stop;
use crate::proggen::{self, ProgSpec};
use crate::refasm::Layout;
use crate::refdbg::{Cmd, Effect, Loc, PLoc};

pub struct C13;

#[derive(Clone, Debug, Serialize, Deserialize)]
pub enum Case {
    History { spec: ProgSpec, pre_steps: u8, cmds: Vec<RawCmd> },
    /// absolute-address sweep: `count` consecutive addresses from `start`, every command on each
    Sweep { orig_sel: u8, start: u16, count: u16, style: u8 },
}

fn confined_cmd(p: &Prog, r: &RawCmd) -> Cmd {
    let loc = || make_loc(p, r.a, r.b, r.c, LocMode::Any);
    match r.kind % 14 {
        0 | 1 => Cmd::Move(PLoc::Mem(loc()), value16(r.a >> 6, r.c)),
        2 => Cmd::Move(PLoc::Reg((r.b % 8) as u8), value16(r.a, r.c)),
        3 | 4 => Cmd::Goto(loc()),
        5 | 6 => Cmd::BreakAdd(loc()),
        7 => Cmd::BreakRemove(loc()),
        8 => Cmd::Print(if r.a % 4 == 0 { PLoc::Reg((r.b % 8) as u8) } else { PLoc::Mem(loc()) }),
        9 => Cmd::Registers,
        10 => Cmd::Assembly(if r.a % 5 == 0 { None } else { Some(loc()) }),
        11 => Cmd::BreakList,
        12 => Cmd::Move(PLoc::Mem(make_loc(p, r.a, r.b, r.c, LocMode::Code)), value16(r.a >> 6, r.c)),
        _ => Cmd::BreakRemove(make_loc(p, r.a, r.b, r.c, LocMode::Code)),
    }
}

fn sweep_spec(orig_sel: u8) -> ProgSpec {
    // for the straddling program: `.break` before many statements, so that predefined
    // breakpoints exist on both sides of 0xFE00
    let main = if orig_sel == 200 {
        (0..24).flat_map(|i| vec![proggen::PgOp::Break, proggen::PgOp::Alu(1, (i % 4) as u8, 0, 0, 1)]).collect()
    } else {
        vec![]
    };
    ProgSpec {
        main,
        subs: vec![],
        sub_call: vec![false; 3],
        ending: proggen::Ending::Halt,
        orig_sel,
        orig_val: 0x4321,
        stack: false,
        recursion: 0,
        data: vec![0x1111; 8],
        strings: vec!["ab".into(), "c".into(), "".into()],
        raw_words: None,
        fit: 0,
        spin: 0,
    }
}

pub fn judge_case(c: &Case) -> Obs {
    let mut obs = Obs::default();
    let (spec, pre, cmds_of): (ProgSpec, u8, Box<dyn Fn(&Prog) -> Vec<Cmd>>) = match c {
        Case::History { spec, pre_steps, cmds } => {
            let cmds = cmds.clone();
            (spec.clone(), *pre_steps, Box::new(move |p: &Prog| cmds.iter().map(|r| confined_cmd(p, r)).collect()))
        }
        Case::Sweep { orig_sel, start, count, style } => {
            let (start, count, style) = (*start, *count, *style);
            (
                sweep_spec(*orig_sel),
                0,
                Box::new(move |_p: &Prog| {
                    let mut v = Vec::new();
                    for k in 0..count {
                        let a = start.wrapping_add(k);
                        let l = Loc::Abs(a, style);
                        v.push(Cmd::Move(PLoc::Mem(l.clone()), a ^ 0x5A5A));
                        v.push(Cmd::BreakAdd(l.clone()));
                        if k % 2 == 0 || a >= 0xFDF0 {
                            v.push(Cmd::BreakRemove(l.clone()));
                        }
                        v.push(Cmd::Goto(l));
                    }
                    v
                }),
            )
        }
    };
    let p = match prepare(&spec, Layout::CANON) {
        Ok(p) => p,
        Err(why) => {
            obs.excluded = Some(why);
            return obs;
        }
    };
    if let Some(l) = proggen::fit_label(&spec) {
        obs.label(l);
    }
    let mut cmds: Vec<Cmd> = Vec::new();
    if pre > 0 {
        cmds.push(Cmd::StepInto(Some(pre as u16)));
    }
    let body = cmds_of(&p);
    cmds.extend(body);
    cmds.push(Cmd::Exit);
    let model = run_model(&p, &cmds, &[], 5000);
    if let Some(why) = model.ambiguous {
        obs.excluded = Some(why);
        return obs;
    }
    let observe = matches!(c, Case::History { .. });
    let mut lines: Vec<String> = Vec::new();
    for (i, cmd) in cmds.iter().take(model.kept).enumerate() {
        if matches!(cmd, Cmd::Exit) {
            break;
        }
        lines.push(cmd.text((i % 7) as u8));
        if observe && !matches!(cmd, Cmd::Registers) {
            // (a `registers` command is its own observation)
            lines.push("registers".into());
        }
    }
    lines.extend(["echo LIST".to_string(), "break list".into(), "echo ENDLIST".into(), "exit".into()]);
    let script = lines.join("\n");
    let shown = match c {
        Case::Sweep { start, count, style, .. } => format!("sweep of x{start:04X}..+{count} (spelling {style}), origin x{:04X}", p.orig),
        _ => show_case(&p, &script, &[]),
    };
    obs.show = Some(shown.clone());
    obs.key = hash_of(&(&p.text, &script));
    let fuel = 8 * (model.dbg.executed + lines.len() as u64) + 64;
    let s = run_lace(&p, &script, &[], fuel);
    let Some(out) = outcome_of(&mut obs, "C13", &s, &shown) else { return obs };
    if out.stop != Stop::Returned {
        obs.set_fail("C13:session-ended-abnormally", format!("{:?}\n{shown}", out.stop));
        return obs;
    }
    // classes / non-triviality
    let mut refused_out_of_space = 0usize;
    for (cmd, eff) in cmds.iter().zip(&model.effects) {
        let loc = match cmd {
            Cmd::Move(PLoc::Mem(l), _) | Cmd::Goto(l) | Cmd::BreakAdd(l) | Cmd::BreakRemove(l) => Some(l),
            _ => None,
        };
        if let Some(l) = loc {
            let target = model.dbg.resolve(l);
            let edges = [0u16, p.orig, p.orig.wrapping_sub(1), 0xFDFF, 0xFE00, 0xFFFF, 0x7FFF, 0x8000];
            let near = target.map(|t| edges.iter().any(|e| t.abs_diff(*e) <= 1)).unwrap_or(true);
            if near || target.map(|t| t >= 0x8000).unwrap_or(false) || !matches!(l, Loc::Abs(..)) {
                obs.nontrivial = true;
            }
            match l {
                Loc::Abs(..) => obs.label("location-absolute"),
                Loc::Label(..) => obs.label("location-label-offset"),
                Loc::PcOff(_) => obs.label("location-pc-offset"),
            }
            if let Effect::Refused("address outside user space") = eff {
                refused_out_of_space += 1;
                obs.label("write-refused-outside-user-space");
            } else if matches!(eff, Effect::Applied) {
                obs.label("write-applied");
            }
        }
    }
    if observe && !compare_states(&mut obs, "C13", &model, &cmds, out, &shown) {
        return obs;
    }
    let err = String::from_utf8_lossy(&out.stderr).to_string();
    let reported = err.lines().filter(|l| *l == "OutOfBounds::Address").count();
    // print/assembly with a label or PC offset outside user space also report it
    let read_refused = cmds.iter().zip(&model.effects).filter(|(c, e)| matches!(c, Cmd::Print(_) | Cmd::Assembly(_)) && matches!(e, Effect::Refused(_))).count();
    if reported != refused_out_of_space + read_refused {
        obs.set_fail(
            "C13:refusal-not-reported",
            format!("{} commands target an address outside user space (+{read_refused} read-only ones); {reported} `OutOfBounds::Address` errors were printed\n{shown}\n{}", refused_out_of_space, clip(&err)),
        );
        return obs;
    }
    // breakpoint list at the end
    let mut list = Vec::new();
    let mut on = false;
    for l in err.lines() {
        match l {
            "[LIST]" => on = true,
            "[ENDLIST]" => on = false,
            _ if on => {
                if let Some(v) = l.strip_prefix('x').and_then(|h| u16::from_str_radix(h, 16).ok()) {
                    list.push(v);
                }
            }
            _ => {}
        }
    }
    let want: Vec<u16> = model.dbg.bps.iter().copied().collect();
    if list != want {
        obs.set_fail("C13:wrong-breakpoint-set", format!("breakpoints are {list:04X?}, expected {want:04X?}\n{shown}"));
        return obs;
    }
    if let Some(fin) = &out.fin {
        if let Some(d) = snap_diff(fin, &model.dbg.vm) {
            obs.set_fail("C13:unconfined-or-wrong-write", format!("{d}\n{shown}"));
        }
    }
    mode_twin(&mut obs, "C13", &p, &script, &[], fuel, out, &shown);
    obs
}

fn cases() -> impl Strategy<Value = Case> {
    (proggen::prog_spec(10), crate::pick![2 => Just(0u8), 1 => 1u8..30], prop::collection::vec(raw_cmd(), 1..12))
        .prop_map(|(spec, pre_steps, cmds)| Case::History { spec, pre_steps, cmds })
}

impl Prop for C13 {
    fn id(&self) -> &'static str {
        "C13"
    }
    fn rule(&self) -> &'static str {
        "Histories of 1-11 commands over {move <loc|reg> <value>, goto <loc>, break add/remove <loc>, print, registers, assembly, break list} after 0-29 executed instructions, with <loc> an absolute address in six radix spellings, label+-offset or ^offset (offsets over the whole signed 16-bit range, sums overflowing 16 bits), \
         targets drawn from {0, origin-1, origin, origin+1, 0x7FFF, 0x8000, 0xFDFE..0xFE01, 0xFFFE, 0xFFFF, program end} ∪ uniform, origins on both sides of 0x8000; plus an absolute-address sweep (also over a program at 0xFDF8 that straddles the end of user space and has `.break` directives beyond 0xFE00) (quick: a stride sample and all edges; thorough: all 65,536 addresses x move / break add / break remove / goto). \
         Oracle: RefDbg — target outside [origin, 0xFE00) => `OutOfBounds::Address` is reported and nothing changes; inside => exactly the named word / register / PC / breakpoint changes to exactly the given value; read-only commands change nothing: registers/PC/CC after every command, the breakpoint list and the full 65,536-word snapshot at the end. \
         One case in six is run once more in the normal (non-minimal) output mode - tables, colours, errors rendered in full: it must end the same way, after the same number of instructions, with the same final machine. Non-trivial: the target is within 1 of a boundary, >= 0x8000, or produced by label / PC-offset arithmetic. Distinct = hash(source, script)."
    }
    fn assumptions(&self) -> Vec<String> {
        vec![
            "RefDbg resolves locations with unbounded integer arithmetic and refuses what leaves [origin, 0xFE00); offsets are generated within the documented signed 16-bit range".into(),
        ]
    }
    fn run_worker(&self, ctx: &Ctx, rep: &mut Report) {
        // absolute-address sweep
        let chunk = 64u32;
        let step: u32 = ctx.tier.pick(16, 1); // quick: every 16th chunk + the chunks holding the edges
        let mut n = 0u64;
        for orig_sel in [1u8, 4, 200] {
            let o = proggen::origin_for(&sweep_spec(orig_sel)) as u32;
            for ci in 0..(0x10000 / chunk) {
                let start = ci * chunk;
                let holds_edge = [0u32, o, 0x7FFF, 0x8000, 0xFDFF, 0xFE00, 0xFE30, 0xFFFF].iter().any(|e| (start..start + chunk + 1).contains(e) || start == e + 1);
                if orig_sel == 200 && !holds_edge {
                    continue; // the straddling program is only swept around its own addresses
                }
                if ci % step != 0 && !holds_edge {
                    continue;
                }
                for style in [0u8, 1, 3] {
                    if ctx.tier == Tier::Quick && style != (ci % 3) as u8 * 1 && !holds_edge {
                        continue;
                    }
                    n += 1;
                    if !ctx.mine(n) {
                        continue;
                    }
                    let case = Case::Sweep { orig_sel, start: start as u16, count: chunk as u16, style };
                    judge_one(ctx, rep, &case, &mut |c| {
                        let mut o = judge_case(c);
                        o.label("absolute-address-sweep");
                        o
                    });
                }
            }
        }
        if ctx.tier == Tier::Thorough {
            rep.exhaustive.push("absolute addresses: all 65,536 x {move, break add, break remove, goto} x 3 spellings x 2 origins".into());
        }
        let n = ctx.share(ctx.tier.pick(20_000, 200_000));
        drive(ctx, rep, "histories", cases(), n, &mut |c: &Case| judge_case(c));
    }
    fn fuzz_strategy(&self) -> Option<BoxedStrategy<Value>> {
        Some(crate::fuzzmode::jv(cases()))
    }
    fn replay(&self, _ctx: &Ctx, case: &Value) -> Obs {
        match serde_json::from_value::<Case>(case.clone()) {
            Ok(c) => judge_case(&c),
            Err(e) => Obs::fail("C13:bad-replay-file", format!("cannot parse case: {e}")),
        }
    }
}
