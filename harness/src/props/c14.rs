//! C14 — The command language is total, unambiguous and transport-independent.
//! (a) every argument string up to a bounded length over a 14-symbol alphabet, plus generated
//! longer ones, as value and as location, against RefCmd; (b) every command name / alias /
//! misspelling in random letter case against the canonical spelling; (c) every way of splitting a
//! script between `--command` and stdin, with either separator.

use proptest::prelude::*;
use serde::{Deserialize, Serialize};
use serde_json::Value;

use crate::dbgcheck::clip;
use crate::engine::*;
use crate::lacebox::{self, Load, RunSpec, Stop};
use crate::refcmd::{self, Loc, NAMES};
use crate::refdbg::parse_reg_dumps;

pub struct C14;

pub const ALPHABET: [char; 14] = ['+', '-', '#', 'x', 'o', 'b', '0', '1', '8', 'a', 'g', '^', 'r', '_'];

/// Labels of the token program (origin 0, so that small integers are user-space addresses).
pub const TOKEN_LABELS: &[&str] = &[
    "a", "g", "ag", "_", "r", "r8", "xg", "b8", "o8", "o", "x", "b", "a1", "ga", "_1", "a_", "gg", "rr", "bb", "oo", "x_", "b_", "o_", "r_1",
    "a0", "g8", "bag", "xag", "bar", "gab", "R00", "xo", "og", "__", "r10", "r1_", "r0_a", "R7_SAVE",
    // names the assembler accepts as labels and the command grammar reads as integers (binary,
    // octal): in a command they are the integer, never the label
    "b10", "b1", "b0", "b11", "o1", "o10", "o0", "b01",
];

fn token_program() -> (String, Vec<(String, u16)>) {
    let mut text = String::from(".orig x0\n");
    let mut labels = Vec::new();
    for (i, l) in TOKEN_LABELS.iter().enumerate() {
        text.push_str(&format!("{l} add r0 r0 #{}\n", i % 16));
        labels.push((l.to_string(), i as u16));
    }
    text.push_str("halt\n");
    (text, labels)
}

#[derive(Clone, Debug, Serialize, Deserialize)]
pub enum Case {
    /// a batch of argument tokens, each used as value (`move r1 <t>`), as location (`goto <t>`) and
    /// (when `with_break`) as `break add <t>`
    Tokens { tokens: Vec<String>, with_break: bool },
    /// a command spelled with a name variant, compared with the canonical spelling
    Name { entry: usize, variant: String, is_candidate: bool, args: String },
    /// a script, delivered in different ways
    Transport { commands: Vec<String>, split: usize, sep_arg: bool, sep_stdin: bool, decorate: u8 },
    /// `print` without an argument means the PC (help.txt: default: PC)
    PrintDefault,
    /// a script on standard input in which one line contains bytes that are not UTF-8: that line
    /// is a line like any other - rejected, no effect, no panic - and the lines around it keep
    /// their meaning (`place`: where in the line the bytes go, `raw`: which bytes)
    BadBytes { before: Vec<String>, line: String, place: u8, raw: u8, after: Vec<String> },
    /// a long run of one command that is rejected, blank or without effect, then a short tail:
    /// the session means what the tail means (`via`: 0 stdin, one per line; 1 stdin, `;`-joined on
    /// one line; 2 `--command`, one per line; 3 `--command`, `;`-joined) - through the real binary
    LongRun { unit: String, count: u32, via: u8 },
    /// one `echo` line of `len` characters on standard input, through the real binary: it is one
    /// command however long it is (then `move r1 x17; print r1`)
    LongLine { len: u32 },
    /// a two-word command whose second word is no sub-command (`step sudo`, `b exit`): rejected
    /// like any other invalid line, through the real binary and every transport
    BadSub { first: String, second: String },
}

fn judge_bad_sub(first: &str, second: &str) -> Obs {
    let mut obs = Obs::default();
    obs.key = hash_of(&("bad-sub", first, second));
    obs.nontrivial = true;
    obs.label("second-word-that-is-no-sub-command");
    let script = |line: &str| format!("move r1 x5A5A\n{line}\nprint r1\nstep\nregisters\nexit");
    obs.show = Some(format!("{:?} against the same script with `bogus` in its place", script(&format!("{first} {second}"))));
    let dir = crate::cli::TempDir::new();
    dir.write("p.asm", NAME_PROGRAM.as_bytes());
    let bad = script(&format!("{first} {second}"));
    let reference = crate::cli::lace(&["debug", "p.asm", "--minimal", "--command", script("bogus").as_str()], dir.path(), &[], false, 60);
    for (how, run) in [
        ("--command", crate::cli::lace(&["debug", "p.asm", "--minimal", "--command", bad.as_str()], dir.path(), &[], false, 60)),
        ("standard input", crate::cli::lace(&["debug", "p.asm", "--minimal"], dir.path(), format!("{bad}\n").as_bytes(), false, 60)),
    ] {
        if reference.timed_out || run.timed_out {
            obs.excluded = Some("watchdog");
            return obs;
        }
        if run.panicked() {
            obs.set_fail("C14:debugger-crashes", format!("`{first} {second}` through {how}: {}", run.brief()));
            return obs;
        }
        if run.code != reference.code || run.stdout != reference.stdout || run.stderr != reference.stderr {
            obs.set_fail(
                "C14:invalid-sub-command-not-rejected-like-an-invalid-line",
                format!("`{first} {second}` through {how}: {}\nthe same script with `bogus` in its place: {}", run.brief(), reference.brief()),
            );
            return obs;
        }
    }
    obs
}

/// Units of a long run: rejected by the parser, rejected when executed, blank, or inspection only.
pub const LONG_UNITS: &[&str] = &["bogus", "print 99999", "p !", "break", "move r1", "goto nowhere", "", " ", "registers", "print r1", "break list", "eval", "move r9 1", "step into x"];
const LONG_TAIL: &str = "move r1 x5A5A\nprint r1\nstep\nregisters\nexit";

fn judge_long_run(unit: &str, count: u32, via: u8) -> Obs {
    let mut obs = Obs::default();
    obs.key = hash_of(&("long-run", unit, count, via));
    obs.nontrivial = count >= 1000;
    obs.label("long-run-of-one-command-through-real-binary");
    obs.label(match count {
        0..=999 => "run-shorter-than-1000",
        1000..=65_535 => "run-of-1000-to-65535",
        _ => "run-longer-than-65535",
    });
    let semi = via % 2 == 1;
    let by_arg = via % 4 >= 2;
    let sep = if semi { ";" } else { "\n" };
    obs.show = Some(format!("{count} x {unit:?} joined by {sep:?}, then {LONG_TAIL:?}, through {}", if by_arg { "--command" } else { "standard input" }));
    let script = |n: u32| {
        let mut s = String::with_capacity((unit.len() + 1) * n as usize + 64);
        for _ in 0..n {
            s.push_str(unit);
            s.push_str(sep);
        }
        if semi {
            s.push('\n');
        }
        s.push_str(LONG_TAIL);
        s
    };
    let dir = crate::cli::TempDir::new();
    dir.write("p.asm", NAME_PROGRAM.as_bytes());
    let go = |text: &str| {
        if by_arg {
            crate::cli::lace(&["debug", "p.asm", "--minimal", "--command", text], dir.path(), &[], false, 240)
        } else {
            crate::cli::lace(&["debug", "p.asm", "--minimal"], dir.path(), text.as_bytes(), false, 240)
        }
    };
    let tail = go(LONG_TAIL);
    let one = go(&script(1));
    let long = go(&script(count));
    if tail.timed_out || one.timed_out || long.timed_out {
        obs.excluded = Some("watchdog");
        return obs;
    }
    if tail.panicked() || one.panicked() {
        obs.set_fail("C14:debugger-crashes", format!("tail alone: {}\none unit: {}", tail.brief(), one.brief()));
        return obs;
    }
    if long.panicked() {
        obs.set_fail("C14:debugger-crashes-on-long-script", format!("{count} x {unit:?}: exit {:?} signal {:?}, last output {:?}\nonce: {}", long.code, long.signal, clip(&String::from_utf8_lossy(&long.stderr[long.stderr.len().saturating_sub(300)..])), one.brief()));
        return obs;
    }
    // what one unit prints: the session with one unit minus the session without
    let unit_err = one.stderr.strip_suffix(&tail.stderr[..]).map(|x| x.to_vec());
    let mut ok = long.code == tail.code && long.stdout == tail.stdout && long.stderr.ends_with(&tail.stderr);
    if ok && !semi {
        if let Some(u) = &unit_err {
            ok = long.stderr.len() == u.len() * count as usize + tail.stderr.len() && long.stderr[..long.stderr.len() - tail.stderr.len()].chunks(u.len().max(1)).all(|c| c == &u[..]);
        }
    }
    if !ok {
        obs.set_fail(
            "C14:long-script-changes-meaning",
            format!(
                "{count} x {unit:?} before the tail: exit {:?}, stdout {:?}, debugger output ends {:?}\nthe tail alone: {}\none unit before the tail: {}",
                long.code, clip(&String::from_utf8_lossy(&long.stdout)), clip(&String::from_utf8_lossy(&long.stderr[long.stderr.len().saturating_sub(400)..])), tail.brief(), one.brief()
            ),
        );
    }
    obs
}

const SENT_R1: u16 = 0x5A5A;
const SENT_PC: u16 = 0x0055;

fn run(text: &str, command: Option<String>, stdin: &[u8], fuel: u64) -> lacebox::Session {
    run_mode(text, command, stdin, fuel, true)
}

fn run_mode(text: &str, command: Option<String>, stdin: &[u8], fuel: u64, minimal: bool) -> lacebox::Session {
    lacebox::run_session(
        Load::Source { text: text.to_string(), debugger: Some(command) },
        RunSpec { stack: false, minimal, fuel, input: stdin.to_vec() },
    )
}

fn has_error(seg: &str) -> bool {
    ["CommandError", "OutOfBounds::Address", "Labels::NotFound", "Breakpoints::AlreadyExists", "Breakpoints::NotFound"].iter().any(|k| seg.contains(k))
}

fn judge_tokens(tokens: &[String], with_break: bool) -> Obs {
    let mut obs = Obs::default();
    let (text, labels) = token_program();
    obs.key = hash_of(&(tokens, with_break));
    obs.show = Some(format!("tokens {:?} ... ({} tokens, break add: {with_break})", &tokens[..tokens.len().min(12)], tokens.len()));
    let resolve = |l: &Loc, pc: u16| -> Option<u16> {
        let a: i64 = match l {
            Loc::Abs(a) => *a as i64,
            Loc::PcOff(o) => pc as i64 + *o as i64,
            Loc::Label(n, o) => labels.iter().find(|(x, _)| x == n).map(|(_, a)| *a as i64)? + *o as i64,
        };
        if (0..0xFE00).contains(&a) {
            Some(a as u16)
        } else {
            None
        }
    };
    let mut lines: Vec<String> = Vec::new();
    for (k, t) in tokens.iter().enumerate() {
        lines.push(format!("move r1 x{SENT_R1:x}"));
        lines.push(format!("goto x{SENT_PC:x}"));
        lines.push(format!("echo V{k}"));
        lines.push(format!("move r1 {t}"));
        lines.push(format!("echo G{k}"));
        lines.push(format!("goto {t}"));
        lines.push(format!("echo R{k}"));
        lines.push("registers".into());
        if with_break {
            lines.push(format!("echo B{k}"));
            lines.push(format!("goto x{SENT_PC:x}"));
            lines.push(format!("break add {t}"));
            lines.push("break list".into());
            // clean up whatever the model says was added
            if let Some(a) = refcmd::location(t).and_then(|l| resolve(&l, SENT_PC)) {
                lines.push(format!("break remove x{a:x}"));
            }
        }
        lines.push(format!("echo E{k}"));
    }
    lines.push("exit".into());
    let script = lines.join("\n");
    let s = run(&text, Some(script.clone()), &[], 20 * lines.len() as u64 + 100);
    let Some(out) = &s.outcome else {
        obs.set_fail("C14:session-failed", "token program did not load");
        return obs;
    };
    // the same script in the normal (non-minimal) output mode, where errors are rendered in full:
    // the mode changes what is printed, never what a line means - no panic, same final machine
    let s2 = run_mode(&text, Some(script), &[], 20 * lines.len() as u64 + 100, false);
    if let (Some(o2), false) = (&s2.outcome, out.stop.is_panic()) {
        if let Stop::Panic(msg, loc) = &o2.stop {
            let err2 = String::from_utf8_lossy(&lacebox::strip_sgr(&o2.stderr)).to_string();
            let last = err2.lines().rev().find(|l| l.trim_start().starts_with("[V") || l.trim_start().starts_with("[G") || l.trim_start().starts_with("[B")).unwrap_or("").trim().to_string();
            let k: Option<usize> = last.trim_matches(|c| c == '[' || c == ']').get(1..).and_then(|x| x.parse().ok());
            if loc == "<spin>" {
                obs.set_fail("C14:session-spins-without-progress", format!("in the normal output mode: {msg}; last marker {last} (token {:?})", k.and_then(|k| tokens.get(k))));
                return obs;
            }
            obs.set_fail(
                format!("C14:{}", super::c01::panic_sig(msg, loc)),
                format!("in the normal output mode the debugger panicked: {msg} at {loc}; last marker {last} (token {:?})", k.and_then(|k| tokens.get(k))),
            );
            return obs;
        }
        if o2.stop != out.stop || o2.fin != out.fin {
            obs.set_fail("C14:output-mode-changes-meaning", format!("the same script ends differently in the normal output mode: {:?} vs {:?} (minimal), final machine states {}", o2.stop, out.stop, if o2.fin == out.fin { "equal" } else { "differ" }));
            return obs;
        }
    }
    let err = String::from_utf8_lossy(&out.stderr).to_string();
    if let Stop::Panic(msg, loc) = &out.stop {
        // find the token that was being processed: the last marker seen
        let last = err.lines().rev().find(|l| l.starts_with('[')).unwrap_or("").to_string();
        let k: Option<usize> = last.trim_matches(|c| c == '[' || c == ']').get(1..).and_then(|x| x.parse().ok());
        obs.set_fail(
            format!("C14:{}", super::c01::panic_sig(msg, loc)),
            format!("the parser panicked: {msg} at {loc}; last marker {last} (token {:?})", k.and_then(|k| tokens.get(k))),
        );
        return obs;
    }
    if out.stop != Stop::Returned {
        obs.set_fail("C14:session-ended-abnormally", format!("{:?}\n{}", out.stop, clip(&err)));
        return obs;
    }
    // split the transcript into per-token segments
    let seg = |from: &str, to: &str| -> Option<&str> {
        let a = err.find(&format!("[{from}]\n"))? + from.len() + 3;
        let b = err[a..].find(&format!("[{to}]\n"))? + a;
        Some(&err[a..b])
    };
    for (k, t) in tokens.iter().enumerate() {
        let want_val = refcmd::value(t);
        let loc = refcmd::location(t);
        let want_pc = loc.as_ref().and_then(|l| resolve(l, SENT_PC));
        let (Some(vseg), Some(gseg), Some(rseg)) = (seg(&format!("V{k}"), &format!("G{k}")), seg(&format!("G{k}"), &format!("R{k}")), seg(&format!("R{k}"), &(if with_break { format!("B{k}") } else { format!("E{k}") }))) else {
            obs.set_fail("C14:transcript-truncated", format!("markers for token #{k} {t:?} not found\n{}", clip(&err)));
            return obs;
        };
        let Some(d) = parse_reg_dumps(rseg).into_iter().next() else {
            obs.set_fail("C14:transcript-truncated", format!("no register listing for token #{k} {t:?}"));
            return obs;
        };
        let r1 = d.r[1];
        let shape = |s: &str| -> String {
            let s = s.trim_start_matches(['+', '-']);
            s.chars().next().map(|c| if c.is_ascii_digit() { "digit".to_string() } else { c.to_string() }).unwrap_or_default()
        };
        match want_val {
            Some(v) => {
                if r1 != v || has_error(vseg) {
                    obs.set_fail(
                        format!("C14:value-misparsed:{}", shape(t)),
                        format!("`move r1 {t}`: the documented grammar reads {t:?} as the integer x{v:04X}; R1 is x{r1:04X}{}", if has_error(vseg) { " and an error was reported" } else { "" }),
                    );
                    return obs;
                }
            }
            None => {
                if r1 != SENT_R1 {
                    obs.set_fail(format!("C14:invalid-value-accepted:{}", shape(t)), format!("`move r1 {t}`: {t:?} is not a valid integer value, but R1 became x{r1:04X}"));
                    return obs;
                }
                if !has_error(vseg) {
                    obs.set_fail(format!("C14:invalid-value-not-reported:{}", shape(t)), format!("`move r1 {t}` was rejected silently"));
                    return obs;
                }
            }
        }
        match want_pc {
            Some(a) => {
                if d.pc != a || has_error(gseg) {
                    obs.set_fail(
                        format!("C14:location-misparsed:{}", shape(t)),
                        format!("`goto {t}`: the documented grammar resolves {t:?} ({loc:?}) to x{a:04X}; PC is x{:04X}{}", d.pc, if has_error(gseg) { " and an error was reported" } else { "" }),
                    );
                    return obs;
                }
            }
            None => {
                if d.pc != SENT_PC {
                    obs.set_fail(format!("C14:invalid-location-accepted:{}", shape(t)), format!("`goto {t}`: not a valid location ({loc:?}), but PC became x{:04X}", d.pc));
                    return obs;
                }
                if !has_error(gseg) {
                    obs.set_fail(format!("C14:invalid-location-not-reported:{}", shape(t)), format!("`goto {t}` was rejected silently"));
                    return obs;
                }
            }
        }
        if with_break {
            let Some(bseg) = seg(&format!("B{k}"), &format!("E{k}")) else { continue };
            let listed: Vec<u16> = bseg.lines().filter_map(|l| l.strip_prefix('x').filter(|h| h.len() == 4).and_then(|h| u16::from_str_radix(h, 16).ok())).collect();
            let want: Vec<u16> = want_pc.into_iter().collect();
            if listed != want {
                obs.set_fail(format!("C14:break-add-misparsed:{}", shape(t)), format!("`break add {t}`: breakpoints are {listed:04X?}, expected {want:04X?}"));
                return obs;
            }
        }
    }
    obs
}

fn token_nontrivial(t: &str) -> bool {
    (t.contains(['+', '-', '#', 'x', 'o', 'b', '^']) || t.starts_with('0')) && t.chars().any(|c| c.is_ascii_digit())
}

/// All strings of length 1..=max over the alphabet, in a fixed order.
fn enumerate_tokens(max: usize) -> Vec<String> {
    let mut all = Vec::new();
    let mut level: Vec<String> = vec![String::new()];
    for _ in 0..max {
        let mut next = Vec::with_capacity(level.len() * 14);
        for s in &level {
            for c in ALPHABET {
                let mut t = s.clone();
                t.push(c);
                next.push(t);
            }
        }
        all.extend(next.iter().cloned());
        level = next;
    }
    all
}

fn long_token() -> impl Strategy<Value = String> {
    let edge = prop::sample::select(vec![
        0i64, 1, 7, 8, 9, 10, 15, 16, 255, 256, 32767, 32768, 32769, 65534, 65535, 65536, 65537, 99999, 2147483647, 2147483648, 2147483649, 4294967295, 4294967296, 4294967297,
        9999999999, 1 << 40,
    ]);
    crate::pick![
        // numbers at the edges, every radix, every sign position, leading zeros
        6 => (edge, 0u8..5, 0u8..3, 0u8..4, 0u8..3).prop_map(|(v, radix, sign, zeros, pre0)| {
            let digits = match radix { 0 | 4 => format!("{v}"), 1 => format!("{v:x}"), 2 => format!("{v:o}"), _ => format!("{v:b}") };
            let prefix = match radix { 0 => "#", 1 => "x", 2 => "o", 3 => "b", _ => "" };
            let z = "0".repeat(zeros as usize);
            let p0 = if pre0 == 1 && radix != 4 { "0" } else if pre0 == 2 { "00" } else { "" };
            match sign {
                0 => format!("{p0}{prefix}{z}{digits}"),
                1 => format!("-{p0}{prefix}{z}{digits}"),
                _ => format!("{p0}{prefix}-{z}{digits}"),
            }
        }),
        // label-ish with offsets
        3 => (prop::sample::select(TOKEN_LABELS.to_vec()), prop::sample::select(vec!["", "+", "-", "+x", "-#", "+0x", "-b", "++", "+-", "-o"]), 0u32..70000)
            .prop_map(|(l, s, v)| if s.is_empty() { l.to_string() } else { format!("{l}{s}{v}") }),
        // ^offsets
        2 => (prop::sample::select(vec!["^", "^-", "^+", "^x", "^-x", "^#", "^0x", "^^", "^r1", "^a"]), 0u32..70000).prop_map(|(p, v)| format!("{p}{v}")),
        // multi-byte and odd characters
        2 => "[+\\-#xob018ag^r_é😀.,:;'\"@/]{1,7}".prop_map(|s| s.replace([';', '\n', ' '], "_")),
        // longer strings over the alphabet
        3 => prop::collection::vec(prop::sample::select(ALPHABET.to_vec()), 5..9).prop_map(|v| v.into_iter().collect()),
        // a well-formed token in which one character is replaced by a non-ASCII character with the
        // same low byte (U+0161 for 'a', U+3042 for 'B', U+0130 for '0', ...): never an integer
        2 => (prop::sample::select(vec!["x1a", "xBEEF", "0x7f", "#12", "-#3", "b101", "o17", "x-1c", "^2", "^-x1", "ag+1", "xg-0x2", "r1", "42", "0b11", "+xff"]), any::<u16>(), 1u32..0x40)
            .prop_map(|(t, at, k)| collide(t, at, k)),
        // control characters that are not separators (ESC, BEL, BS, DEL, CSI): part of the token,
        // which therefore is no integer, no label, nothing
        2 => (prop::sample::select(vec!["\u{1b}", "a\u{1b}b", "\u{1b}[", "\u{1b}[1", "x1\u{1b}", "\u{7}", "\u{8}1", "1\u{7f}", "\u{9b}1m", "#\u{1b}5", "\u{1b}\u{1b}", "ag\u{1b}+1"]), 0usize..3)
            .prop_map(|(t, rep)| t.repeat(rep + 1)),
        // long tokens with a multi-byte character around byte offsets 32, 64, 128, 256 (where
        // something that shortens, pads or slices by bytes would cut)
        2 => (prop::sample::select(vec![32usize, 64, 128, 256]), 0usize..5, prop::sample::select(vec!['1', 'a', 'x', 'g', '0']), prop::sample::select(vec!['é', '日', '😀']), prop::sample::select(vec!["", "#", "x", "-", "^", "ag+"]), 0usize..4)
            .prop_map(|(at, d, pad, ch, prefix, tail)| {
                let n = (at + d).saturating_sub(2 + prefix.len());
                format!("{prefix}{}{ch}{}", std::iter::repeat(pad).take(n).collect::<String>(), std::iter::repeat(pad).take(tail).collect::<String>())
            }),
    ]
}

/// Replace the character at a (scaled) position of `t` by the character `k * 0x100` code points
/// above it (same low byte when truncated to `u8`); falls back to `k * 0x10000` planes.
pub fn collide(t: &str, at: u16, k: u32) -> String {
    let cs: Vec<char> = t.chars().collect();
    let i = (at as usize * cs.len()) >> 16;
    let c = cs[i] as u32;
    let repl = char::from_u32(c + k * 0x100).filter(|r| !r.is_whitespace() && !r.is_control()).or_else(|| char::from_u32(c + 0x10000)).unwrap_or('é');
    cs.iter().enumerate().map(|(j, ch)| if j == i { repl } else { *ch }).collect()
}

/// Free-form tokens for the coverage-guided stage: any characters except blanks, separators and
/// control characters (how those split a line is not part of the token grammar).
fn free_token() -> impl Strategy<Value = String> {
    let ch = crate::pick![
        6 => prop::sample::select(ALPHABET.to_vec()),
        3 => prop::sample::select("23456789cdefABCDEFXOBRGlz.,:@/'\"=<>!~*()[]é😀šŁあ".chars().collect::<Vec<_>>()),
        1 => any::<char>(),
    ];
    prop::collection::vec(ch, 1..12).prop_map(|v| v.into_iter().map(|c| if c.is_whitespace() || c.is_control() || c == ';' { '_' } else { c }).collect())
}

// ---------------------------------------------------------------------------------------------
// names

const NAME_PROGRAM: &str = ".orig x3000\nstart add r1 r1 #1\nadd r2 r2 #2\njsr sub\nadd r3 r3 #3\nhalt\nsub add r4 r4 #4\nret\ndata .fill x1234\ndatb .fill x4321\nsuc .fill x0\n";

fn name_args(canonical: &str) -> &'static str {
    match canonical {
        "print" => "r1",
        "move" => "r5 x77",
        "goto" => "x3003",
        "assembly" => "x3002",
        "eval" => "add r6 r6 #5",
        "echo" => "hello",
        "step into" => "2",
        "break add" => "x3003",
        "break remove" => "x3001",
        _ => "",
    }
}

fn name_session(cmd: &str) -> (lacebox::Session, String) {
    // a fixed scenario in which every command has an observable effect
    let script = format!("break add x3001\nstep into 1\n{cmd}\nregisters\nbreak list\nprint data\nexit");
    (run(NAME_PROGRAM, Some(script.clone()), &[], 2000), script)
}

fn recase(s: &str, bits: u32) -> String {
    s.chars().enumerate().map(|(i, c)| if bits >> (i % 16) & 1 == 1 { c.to_ascii_uppercase() } else { c }).collect()
}

fn judge_name(entry: usize, variant: &str, is_candidate: bool, args: &str) -> Obs {
    let mut obs = Obs::default();
    obs.nontrivial = true;
    obs.key = hash_of(&(entry, variant, args));
    let e = &NAMES[entry];
    let cmd_v = format!("{variant} {args}").trim().to_string();
    let cmd_c = format!("{} {args}", e.canonical).trim().to_string();
    obs.show = Some(format!("`{cmd_v}` vs canonical `{cmd_c}`"));
    let (sv, script) = name_session(&cmd_v);
    let Some(ov) = &sv.outcome else { return Obs::fail("C14:session-failed", "no outcome") };
    if let Stop::Panic(m, l) = &ov.stop {
        obs.set_fail(format!("C14:{}", super::c01::panic_sig(m, l)), format!("panic on `{cmd_v}`: {m} at {l}"));
        return obs;
    }
    let errv = String::from_utf8_lossy(&ov.stderr).to_string();
    if is_candidate {
        obs.label("name-candidate");
        let (sc, _) = name_session(&cmd_c);
        let Some(oc) = &sc.outcome else { return Obs::fail("C14:session-failed", "no outcome") };
        if ov.stderr != oc.stderr || ov.stdout != oc.stdout || ov.stop != oc.stop || ov.fin != oc.fin {
            obs.set_fail(
                format!("C14:alias-behaves-differently:{}", e.canonical.replace(' ', "-")),
                format!("`{cmd_v}` must mean `{cmd_c}`\n--- script ---\n{script}\n--- with the variant ---\n{}\n--- canonical ---\n{}", clip(&errv), clip(&String::from_utf8_lossy(&oc.stderr))),
            );
        }
    } else {
        obs.label("name-misspelling");
        // rejected with an error and no effect: same as the scenario without the command
        let (sn, _) = name_session("echo noop");
        let Some(on) = &sn.outcome else { return Obs::fail("C14:session-failed", "no outcome") };
        let errn = String::from_utf8_lossy(&on.stderr).replace("[noop]\n", "");
        let errv_wo = errv.replace("CommandError\n", "");
        if !errv.contains("CommandError") {
            obs.set_fail(format!("C14:misspelling-accepted:{}", e.canonical.replace(' ', "-")), format!("`{cmd_v}` is a listed misspelling (suggest `{}`), it must be rejected\n{}", e.canonical, clip(&errv)));
        } else if errv_wo != errn || ov.fin != on.fin || ov.stdout != on.stdout {
            obs.set_fail(format!("C14:rejected-command-has-effect:{}", e.canonical.replace(' ', "-")), format!("`{cmd_v}` was rejected but changed the session\n{}\n--- without it ---\n{}", clip(&errv), clip(&errn)));
        }
    }
    obs
}

// ---------------------------------------------------------------------------------------------
// transport

const TRANSPORT_POOL: &[&str] = &[
    "step", "s", "step into 2", "si", "continue", "registers", "print r1", "print ^", "move r2 x12", "move x3006 -4", "goto x3002", "assembly", "a x3001",
    "break add x3003", "break add ^1", "break remove x3003", "break list", "echo hi there", "eval add r1 r1 #3", "reset", "bogus", "move r1", "goto nowhere",
    "help", "b l", "s o", "print data", "print sub+1", "goto sub",
    // labels of equal length in the same position of consecutive commands
    "print datb", "move data x7", "move datb x9", "print suc", "move suc -1", "move sub x1021", "break add sub", "break add suc", "break remove sub", "goto suc", "assembly data", "assembly datb",
    "move data+1 x5", "move datb-1 x6", "print datb+1",
    // a carriage return that is not part of a line ending, inside a command: whatever it means,
    // it means the same in every transport
    "echo a\rb", "move r1 x12\rx34", "print r1\r", "\rstep",
];

fn judge_transport(commands: &[String], split: usize, sep_arg: bool, sep_stdin: bool, decorate: u8) -> Obs {
    let mut obs = Obs::default();
    obs.key = hash_of(&(commands, split, sep_arg, sep_stdin, decorate));
    let split = split.min(commands.len());
    obs.nontrivial = split > 0 && split < commands.len();
    let join = |cmds: &[String], semi: bool, decorate: u8| -> String {
        let sep = if semi { ";" } else { "\n" };
        let mut out = String::new();
        for (i, c) in cmds.iter().enumerate() {
            match (decorate.wrapping_add(i as u8)) % 5 {
                0 => out.push_str(&format!("  {c}  ")),
                1 => out.push_str(&format!("{sep}{c}")), // an empty command before it
                2 => out.push_str(&format!("{c} ")),
                _ => out.push_str(c),
            }
            if i + 1 < cmds.len() {
                out.push_str(sep);
            }
        }
        out
    };
    let arg_part = join(&commands[..split], sep_arg, decorate);
    let mut stdin_part = join(&commands[split..], sep_stdin, decorate.wrapping_mul(3));
    if decorate % 2 == 0 && !stdin_part.is_empty() {
        stdin_part.push('\n');
    }
    obs.show = Some(format!("--command {arg_part:?}  stdin {stdin_part:?}"));
    obs.label(match (split == 0, split == commands.len()) {
        (true, _) => "all-through-stdin",
        (_, true) => "all-through-command-argument",
        _ => "split-between-argument-and-stdin",
    });
    // reference delivery: everything through the argument, newline-separated, no decoration
    let reference = run(NAME_PROGRAM, Some(commands.join("\n")), &[], 4000);
    let variant = run(NAME_PROGRAM, if split == 0 { None } else { Some(arg_part.clone()) }, stdin_part.as_bytes(), 4000);
    let (Some(r), Some(v)) = (&reference.outcome, &variant.outcome) else { return Obs::fail("C14:session-failed", "no outcome") };
    for (n, o) in [("reference", r), ("variant", v)] {
        if let Stop::Panic(m, l) = &o.stop {
            if m.contains("RTI") {
                obs.excluded = Some("rti");
                return obs;
            }
            obs.set_fail(format!("C14:{}", super::c01::panic_sig(m, l)), format!("panic ({n} delivery): {m} at {l}\n--command {arg_part:?} stdin {stdin_part:?}"));
            return obs;
        }
    }
    if r.stop != v.stop || r.stdout != v.stdout || r.stderr != v.stderr || r.fin != v.fin {
        let what = if r.stop != v.stop { "exit status" } else if r.stdout != v.stdout { "program output" } else if r.stderr != v.stderr { "debugger output" } else { "final machine state" };
        obs.set_fail(
            "C14:transport-changes-meaning",
            format!(
                "{what} differs between deliveries of the same script\n--- script ---\n{}\n--- variant: --command {arg_part:?} stdin {stdin_part:?} ---\n{:?}\n{}\n--- reference (all in --command, newline separated) ---\n{:?}\n{}",
                commands.join("\n"), v.stop, clip(&String::from_utf8_lossy(&v.stderr)), r.stop, clip(&String::from_utf8_lossy(&r.stderr))
            ),
        );
    }
    obs
}

const RAW_BYTES: &[&[u8]] = &[&[0xFF], &[0x80], &[0xC3], &[0xE2, 0x82], &[0xF0, 0x9F, 0x98], &[0xC0, 0x80], &[0xED, 0xA0, 0x80], &[0xE9, b' ', b'x'], &[0xFE, 0xFF], &[0xF8, 0x88, 0x80, 0x80, 0x80]];

/// The script with a line that is not UTF-8 against the same script with an invalid (but textual)
/// line in its place: same final state, same program output, the session goes on, no panic.
fn judge_bad_bytes(before: &[String], line: &str, place: u8, raw: u8, after: &[String]) -> Obs {
    let mut obs = Obs::default();
    obs.key = hash_of(&("bad-bytes", before, line, place, raw, after));
    obs.nontrivial = true;
    obs.label("line-that-is-not-utf8");
    // the bad line: raw bytes at the start, in the middle (a character boundary) or at the end; or one
    // of the line's own ASCII characters (or a `;` / newline joining it to a second command)
    // spelled as an over-long 2-, 3- or 4-byte sequence - well-formed in structure, yet not UTF-8
    let overlong = |c: u8, n: u8| -> Vec<u8> {
        match n % 3 {
            0 => vec![0xC0 | (c >> 6), 0x80 | (c & 0x3F)],
            1 => vec![0xE0, 0x80 | (c >> 6), 0x80 | (c & 0x3F)],
            _ => vec![0xF0, 0x80, 0x80 | (c >> 6), 0x80 | (c & 0x3F)],
        }
    };
    let mut bad: Vec<u8> = Vec::new();
    if raw as usize % (RAW_BYTES.len() + 6) >= RAW_BYTES.len() && !line.is_empty() {
        obs.label("over-long-encoding-of-a-command-character");
        let which = raw as usize % (RAW_BYTES.len() + 6) - RAW_BYTES.len();
        if which < 4 && line.is_ascii() {
            let at = place as usize % line.len();
            bad.extend(&line.as_bytes()[..at]);
            bad.extend(overlong(line.as_bytes()[at], place / 7));
            bad.extend(&line.as_bytes()[at + 1..]);
        } else {
            bad.extend(line.as_bytes());
            bad.extend(overlong(if which % 2 == 0 { b';' } else { b'\n' }, place));
            bad.extend(b"move r5 x5555");
        }
    } else {
        let bytes = RAW_BYTES[raw as usize % (RAW_BYTES.len() + 6) % RAW_BYTES.len()];
        let cut = match place % 3 {
            0 => 0,
            1 => (0..=line.len() / 2).rev().find(|i| line.is_char_boundary(*i)).unwrap_or(0),
            _ => line.len(),
        };
        bad.extend(&line.as_bytes()[..cut]);
        bad.extend(bytes);
        bad.extend(&line.as_bytes()[cut..]);
    }
    let mut stdin: Vec<u8> = Vec::new();
    for c in before {
        stdin.extend(c.as_bytes());
        stdin.push(b'\n');
    }
    stdin.extend(&bad);
    stdin.push(b'\n');
    for c in after {
        stdin.extend(c.as_bytes());
        stdin.push(b'\n');
    }
    stdin.extend(b"move r6 x6666\nexit\n");
    let mut reference_script: Vec<String> = before.to_vec();
    reference_script.push("bogus-command".into());
    reference_script.extend(after.iter().cloned());
    reference_script.push("move r6 x6666".into());
    reference_script.push("exit".into());
    obs.show = Some(format!("stdin {:?}", String::from_utf8_lossy(&stdin)));
    let reference = run(NAME_PROGRAM, Some(reference_script.join("\n")), &[], 4000);
    let variant = run(NAME_PROGRAM, None, &stdin, 4000);
    let (Some(r), Some(v)) = (&reference.outcome, &variant.outcome) else { return Obs::fail("C14:session-failed", "no outcome") };
    if let Stop::Panic(m, l) = &v.stop {
        if m.contains("RTI") {
            obs.excluded = Some("rti");
            return obs;
        }
        obs.set_fail(format!("C14:{}", super::c01::panic_sig(m, l)), format!("a line of bytes that are not UTF-8 makes the reader panic: {m} at {l}\nstdin {:?}", String::from_utf8_lossy(&stdin)));
        return obs;
    }
    if matches!(r.stop, Stop::Panic(..)) {
        obs.excluded = Some("reference session panics (rti)");
        return obs;
    }
    // an echo line may legitimately print the replacement text; everything else about the machine
    // and the program must agree
    if r.stop != v.stop || r.stdout != v.stdout || r.fin != v.fin {
        let what = if r.stop != v.stop { "how the session ends" } else if r.stdout != v.stdout { "program output" } else { "final machine state" };
        obs.set_fail(
            "C14:non-utf8-line-changes-meaning",
            format!("{what} differs from the same script with an invalid textual line in its place\nstdin {:?}\n--- got {:?} ---\n{}\n--- reference {:?} ---\n{}", String::from_utf8_lossy(&stdin), v.stop, clip(&String::from_utf8_lossy(&v.stderr)), r.stop, clip(&String::from_utf8_lossy(&r.stderr))),
        );
    }
    obs
}

/// The transport relation through the real binary: `--command` is parsed by clap, stdin is a pipe.
fn judge_transport_cli(commands: &[String], split: usize, sep_arg: bool, sep_stdin: bool) -> Obs {
    let mut obs = Obs::default();
    obs.key = hash_of(&("cli", commands, split, sep_arg, sep_stdin));
    let split = split.min(commands.len());
    obs.nontrivial = split > 0 && split < commands.len();
    obs.label("transport-through-real-binary");
    let join = |cmds: &[String], semi: bool| cmds.join(if semi { ";" } else { "\n" });
    let arg_part = join(&commands[..split], sep_arg);
    let stdin_part = join(&commands[split..], sep_stdin);
    obs.show = Some(format!("lace debug p.asm --minimal --command {arg_part:?} < {stdin_part:?}"));
    let dir = crate::cli::TempDir::new();
    dir.write("p.asm", NAME_PROGRAM.as_bytes());
    let all = commands.join("\n");
    let reference = crate::cli::lace(&["debug", "p.asm", "--minimal", "--command", all.as_str()], dir.path(), &[], false, 60);
    let variant = if split == 0 {
        crate::cli::lace(&["debug", "p.asm", "--minimal"], dir.path(), stdin_part.as_bytes(), false, 60)
    } else {
        crate::cli::lace(&["debug", "p.asm", "--minimal", "--command", arg_part.as_str()], dir.path(), stdin_part.as_bytes(), false, 60)
    };
    if reference.timed_out || variant.timed_out {
        obs.excluded = Some("watchdog");
        return obs;
    }
    let rti = |r: &crate::cli::Run| String::from_utf8_lossy(&r.stderr).contains("RTI");
    if rti(&reference) || rti(&variant) {
        obs.excluded = Some("rti");
        return obs;
    }
    if reference.panicked() || variant.panicked() {
        obs.set_fail("C14:debugger-crashes", format!("reference: {}\nvariant: {}", reference.brief(), variant.brief()));
    } else if reference.code != variant.code || reference.stdout != variant.stdout || reference.stderr != variant.stderr {
        obs.set_fail(
            "C14:transport-changes-meaning",
            format!("the same script behaves differently through the real binary\n--command {arg_part:?} stdin {stdin_part:?}: {}\nall in --command: {}", variant.brief(), reference.brief()),
        );
    }
    obs
}

/// Remove what the line editor draws (erase line, column 1, prompt, the text typed so far, column
/// N) from the debugger's output on a terminal session; what is left is what the commands printed.
fn strip_prompt_drawing(err: &[u8]) -> Vec<u8> {
    let mark = b"\x1b[2K\x1b[1Glace~ ";
    let mut out = Vec::new();
    let mut i = 0;
    while i < err.len() {
        if err[i..].starts_with(mark) {
            // ... up to the cursor placement `ESC [ <digits> G`
            let mut j = i + mark.len();
            while j < err.len() && err[j] != 0x1b {
                j += 1;
            }
            let mut k = j + 2;
            while k < err.len() && err[k].is_ascii_digit() {
                k += 1;
            }
            if j + 1 < err.len() && err[j + 1] == b'[' && k < err.len() && err[k] == b'G' {
                i = k + 1;
                continue;
            }
        }
        out.push(err[i]);
        i += 1;
    }
    out
}

/// The script typed at a terminal (the part after `split`; the part before it in `--command`):
/// commands joined by `;` on one line, entered one per line, or with a `;` left at the end of a
/// line. It must mean what it means when it is all in `--command`.
fn judge_transport_tty(commands: &[String], split: usize, sep_arg: bool, mixed: bool) -> Obs {
    let mut obs = Obs::default();
    obs.key = hash_of(&("tty", commands, split, sep_arg, mixed));
    if commands.iter().any(|c| c.contains('\r')) {
        // (at a terminal a carriage return is the Enter key, not a character of the line)
        obs.excluded = Some("a carriage return cannot be typed into a line");
        return obs;
    }
    let split = split.min(commands.len());
    obs.nontrivial = true;
    obs.label("transport-typed-at-a-terminal");
    let arg_part = commands[..split].join(if sep_arg { ";" } else { "\n" });
    // what is typed: each command, then `;`, Enter, `;` Enter or ` ; `; at the end `exit` Enter
    let mut typed_text = String::new();
    for (i, c) in commands[split..].iter().enumerate() {
        typed_text.push_str(c);
        let how = if mixed { hash_of(&(commands, i, "sep")) % 5 } else { 1 };
        typed_text.push_str(match how {
            0 => ";",
            1 | 2 => "\r",
            3 => ";\r",
            _ => " ; ",
        });
    }
    typed_text.push_str("exit\r");
    if typed_text.contains(";\r") {
        obs.label("typed-line-ends-with-a-semicolon");
    }
    obs.show = Some(format!("lace debug p.asm --minimal --command {arg_part:?}, then typed at the terminal: {typed_text:?}"));
    let dir = crate::cli::TempDir::new();
    dir.write("p.asm", NAME_PROGRAM.as_bytes());
    let cache = dir.path().join("cache");
    std::fs::create_dir_all(&cache).unwrap();
    let cache_s = cache.to_string_lossy().to_string();
    let all = format!("{}\nexit", commands.join("\n"));
    let reference = crate::cli::lace(&["debug", "p.asm", "--minimal", "--command", all.as_str()], dir.path(), &[], false, 60);
    let keys: Vec<Vec<u8>> = typed_text.chars().map(|c| c.to_string().into_bytes()).collect();
    let envs = [("XDG_CACHE_HOME", cache_s.as_str()), ("HOME", cache_s.as_str())];
    let (variant, ntyped) = if split == 0 {
        crate::cli::lace_tty_env(&["debug", "p.asm", "--minimal"], dir.path(), &keys, false, 60, &envs)
    } else {
        crate::cli::lace_tty_env(&["debug", "p.asm", "--minimal", "--command", arg_part.as_str()], dir.path(), &keys, false, 60, &envs)
    };
    if reference.timed_out || variant.timed_out {
        obs.excluded = Some("watchdog");
        return obs;
    }
    let rti = |r: &crate::cli::Run| String::from_utf8_lossy(&r.stderr).contains("RTI");
    if rti(&reference) || rti(&variant) {
        obs.excluded = Some("rti");
        return obs;
    }
    let said = strip_prompt_drawing(&variant.stderr);
    // (the editor ends every entered line with a line feed on standard output; the program prints
    // nothing itself: compare the non-empty lines)
    let lines = |b: &[u8]| String::from_utf8_lossy(b).lines().filter(|l| !l.is_empty()).map(|l| l.to_string()).collect::<Vec<_>>();
    if reference.panicked() || variant.panicked() {
        obs.set_fail("C14:debugger-crashes", format!("reference: {}\ntyped ({ntyped} of {} keys): exit {:?} signal {:?} {}", reference.brief(), keys.len(), variant.code, variant.signal, clip(&String::from_utf8_lossy(&said))));
    } else if reference.code != variant.code || lines(&reference.stdout) != lines(&variant.stdout) || reference.stderr != said {
        obs.set_fail(
            "C14:transport-changes-meaning",
            format!(
                "the same script behaves differently when it is typed at a terminal ({ntyped} of {} keys were typed)\ntyped: exit {:?}, program output {:?}, debugger output (prompt drawing removed) {:?}\nall in --command: {}",
                keys.len(), variant.code, clip(&String::from_utf8_lossy(&variant.stdout)), clip(&String::from_utf8_lossy(&said)), reference.brief()
            ),
        );
    }
    obs
}

fn judge_long_line(len: u32) -> Obs {
    let mut obs = Obs::default();
    obs.key = hash_of(&("long-line", len));
    obs.nontrivial = true;
    obs.label("one-very-long-line-through-real-binary");
    obs.show = Some(format!("`echo` followed by {len} x 'a' on one line of standard input, then `move r1 x17`, `print r1`, `exit`"));
    let text: String = std::iter::repeat('a').take(len as usize).collect();
    let stdin = format!("echo {text}\nmove r1 x17\nprint r1\nexit\n");
    let dir = crate::cli::TempDir::new();
    dir.write("p.asm", NAME_PROGRAM.as_bytes());
    let run = crate::cli::lace(&["debug", "p.asm", "--minimal"], dir.path(), stdin.as_bytes(), false, 600);
    if run.timed_out {
        obs.excluded = Some("watchdog");
        return obs;
    }
    let err = String::from_utf8_lossy(&run.stderr).to_string();
    let want = format!("[{text}]\nx0017\n");
    if run.panicked() {
        obs.set_fail("C14:debugger-crashes-on-long-line", format!("exit {:?} signal {:?}; debugger output ends {:?}", run.code, run.signal, clip(&err[err.len().saturating_sub(300)..])));
    } else if err != want || run.code != Some(0) {
        let at = err.bytes().zip(want.bytes()).position(|(a, b)| a != b).unwrap_or(err.len().min(want.len()));
        obs.set_fail(
            "C14:long-line-changes-meaning",
            format!("a line of {} bytes is one `echo` command: expected its text back once, then x0017; exit {:?}, {} bytes of debugger output (expected {}), first difference at byte {at}: {:?}", len + 5, run.code, err.len(), want.len(), clip(&err[at.min(err.len())..(at + 200).min(err.len())])),
        );
    }
    obs
}

pub fn judge_case(c: &Case) -> Obs {
    match c {
        Case::LongLine { len } => judge_long_line(*len),
        Case::BadSub { first, second } => judge_bad_sub(first, second),
        Case::Transport { commands, split, sep_arg, sep_stdin, decorate } if *decorate == 255 => judge_transport_cli(commands, *split, *sep_arg, *sep_stdin),
        Case::Transport { commands, split, sep_arg, sep_stdin, decorate } if *decorate == 254 => judge_transport_tty(commands, *split, *sep_arg, *sep_stdin),
        Case::Tokens { tokens, with_break } => {
            let mut o = judge_tokens(tokens, *with_break);
            o.nontrivial = tokens.iter().any(|t| token_nontrivial(t));
            o
        }
        Case::Name { entry, variant, is_candidate, args } => judge_name(*entry, variant, *is_candidate, args),
        Case::Transport { commands, split, sep_arg, sep_stdin, decorate } => judge_transport(commands, *split, *sep_arg, *sep_stdin, *decorate),
        Case::BadBytes { before, line, place, raw, after } => judge_bad_bytes(before, line, *place, *raw, after),
        Case::LongRun { unit, count, via } => judge_long_run(unit, *count, *via),
        Case::PrintDefault => {
            let mut obs = Obs::default();
            obs.nontrivial = true;
            obs.key = 77;
            obs.show = Some("`print` vs `print ^`".into());
            let a = run(NAME_PROGRAM, Some("step into 2\nprint\nexit".into()), &[], 500);
            let b = run(NAME_PROGRAM, Some("step into 2\nprint ^\nexit".into()), &[], 500);
            let (Some(a), Some(b)) = (&a.outcome, &b.outcome) else { return Obs::fail("C14:session-failed", "no outcome") };
            if a.stderr != b.stderr {
                obs.set_fail(
                    "C14:print-without-location",
                    format!("help.txt documents `print LOCATION?` with default PC; `print` gives\n{}\nwhile `print ^` gives\n{}", String::from_utf8_lossy(&a.stderr), String::from_utf8_lossy(&b.stderr)),
                );
            }
            obs
        }
    }
}

fn bad_bytes_cases() -> impl Strategy<Value = Case> {
    let cmd = || prop::sample::select(TRANSPORT_POOL.to_vec()).prop_map(|s| s.to_string());
    // (the bad line is built on a command that changes state when it is accepted, or on nothing)
    let line = prop::sample::select(vec!["", "move r1 x77", "goto x3002", "break add x3003", "step", "move data x5", "registers", "x", "eval add r1 r1 #1"]).prop_map(|s| s.to_string());
    (prop::collection::vec(cmd(), 0..4), line, any::<u8>(), any::<u8>(), prop::collection::vec(cmd(), 0..4)).prop_map(|(before, line, place, raw, after)| Case::BadBytes { before, line, place, raw, after })
}

impl Prop for C14 {
    fn id(&self) -> &'static str {
        "C14"
    }
    fn rule(&self) -> &'static str {
        "(a) ALL argument strings of length <= 4 (quick) / <= 5 (thorough) over the alphabet {+ - # x o b 0 1 8 a g ^ r _}, each used as `move r1 <t>` (value) and `goto <t>` (location), and up to length 3 also as `break add <t>`, against a program at origin 0 that defines 46 labels colliding with tricky spellings (xg, b8, o, x, r8, R00, _, ... and b10, b1, o10, ... which the assembler accepts as labels while the command grammar reads them as binary / octal integers); plus generated longer tokens: numbers at the i16/u16/i32 edges (and beyond 2^32) in every radix and sign position with leading zeros, label+-offset, ^offset, multi-byte characters, control characters that are not separators (ESC, BEL, BS, DEL, CSI). \
         Oracle RefCmd (doc comment of the integer parser, NaiveType table, help.txt): value accepted <=> documented integer in [-32768, 65535], R1 = v mod 2^16; location => PC / breakpoint list equals the resolved address; everything else => an error is reported and nothing changes; never a panic; every batch is run a second time in the normal (non-minimal) output mode, where errors are rendered in full: no panic, same final machine state. Generated tokens include long ones with a multi-byte character around byte offsets 32 / 64 / 128 / 256. \
         (b) every command name, alias and listed misspelling (one- and two-word forms) in 3 random letter cases: alias => transcript, output, exit and final state identical to the canonical name in a fixed scenario; misspelling => CommandError and no effect. `print` without argument = `print ^`. `step` / `s` / `break` / `b` followed by a word that is no sub-command (`sudo` - an easter egg as a command of its own -, other commands' names, junk) behave, through the real binary on both transports, exactly like any invalid line. \
         (c) generated scripts of 1-8 commands delivered through --command, through stdin, or split at every point, with `;` or newline as separator, empty commands and surrounding blanks: stdout, stderr, exit status and final state identical to the plain delivery (in-process through the real CommandReader, plus a sample through the real binary with a pipe as stdin, plus a sample typed key by key at a pseudo-terminal - one command per line, `;`-joined on a line, or with a `;` left at the end of a line - where the debugger's output with the prompt drawing removed must equal that of the plain delivery). \
         (d) scripts on standard input in which one line contains bytes that are not UTF-8 (lone / truncated / surrogate sequences at the start, in the middle or at the end of a command; a character of the command, or a `;` / newline joining two commands, spelled as an over-long 2-, 3- or 4-byte sequence): no panic, and the session equals the one with an invalid textual line in its place. \
         (e) through the real binary: runs of 1,000 / 30,000 / 70,000 (thorough: 300,000) repetitions of one command that is rejected, blank or inspection-only (14 units), one per line or `;`-joined, on standard input or in `--command`, followed by a short tail, and single `echo` lines of 2^16 .. 5 * 2^20 (thorough: 2^24) characters (one command however long): no crash, and exit status, program output and the tail's debugger output equal those of the tail alone (newline-separated: the whole debugger output is the unit's output repeated). Non-trivial: token with a sign/prefix and a digit; name variant; script split strictly inside. Distinct = token batch / name / (script, split)."
    }
    fn assumptions(&self) -> Vec<String> {
        vec![
            "RefCmd (DESIGN.md Appendix D); `sudo` (documented easter egg that exits) excluded; transport scripts contain no `;`/newline inside echo/eval text".into(),
            "transport is exercised in-process through the same CommandReader (argument first, then the redirected fd 0); the CLI spelling is sampled by C07".into(),
        ]
    }
    fn run_worker(&self, ctx: &Ctx, rep: &mut Report) {
        // (a) exhaustive tokens
        let max = ctx.tier.pick(4, 5);
        let all = enumerate_tokens(max);
        let mut n = 0u64;
        for (bi, chunk) in all.chunks(120).enumerate() {
            n += 1;
            if !ctx.mine(n) {
                continue;
            }
            let with_break = chunk.iter().all(|t| t.chars().count() <= 3);
            let case = Case::Tokens { tokens: chunk.to_vec(), with_break };
            let failed = judge_one(ctx, rep, &case, &mut |c| {
                let mut o = judge_case(c);
                o.label("token-batch");
                o
            });
            // count every token of the batch as an evaluation, and the non-trivial ones as distinct
            rep.evaluations += chunk.len() as u64 - 1;
            for t in chunk {
                if token_nontrivial(t) {
                    rep.nontrivial.insert(hash_of(&("tok", t)));
                }
            }
            if failed {
                // narrow the failing batch down to single tokens for the replay files
                for t in chunk {
                    let single = Case::Tokens { tokens: vec![t.clone()], with_break };
                    if judge_case(&single).fail.is_some() {
                        judge_one(ctx, rep, &single, &mut |c| judge_case(c));
                        break;
                    }
                }
            }
            let _ = bi;
        }
        rep.exhaustive.push(format!("argument tokens: all {} strings of length <= {max} over the 14-symbol alphabet, as value and as location", all.len()));
        // generated longer tokens
        let batches = ctx.share(ctx.tier.pick(300, 4000));
        drive(ctx, rep, "long-tokens", prop::collection::vec(long_token(), 20..40).prop_map(|tokens| Case::Tokens { tokens, with_break: true }), batches, &mut |c: &Case| {
            let mut o = judge_case(c);
            o.label("generated-long-tokens");
            o
        });
        // (b) names
        let mut n = 0u64;
        for (ei, e) in NAMES.iter().enumerate() {
            for (list, is_candidate) in [(e.candidates, true), (e.misspellings, false)] {
                for v in list {
                    for bits in [0u32, 0xFFFF, 0x5A5A ^ (ei as u32 * 37)] {
                        n += 1;
                        if !ctx.mine(n) {
                            continue;
                        }
                        let case = Case::Name { entry: ei, variant: recase(v, bits), is_candidate, args: name_args(e.canonical).to_string() };
                        judge_one(ctx, rep, &case, &mut |c| judge_case(c));
                    }
                }
            }
        }
        n += 1;
        if ctx.mine(n) {
            judge_one(ctx, rep, &Case::PrintDefault, &mut |c| judge_case(c));
        }
        rep.exhaustive.push("command names: every candidate and listed misspelling of the name table x 3 letter-case patterns".into());
        // (c) transport
        let k = ctx.share(ctx.tier.pick(3000, 40_000));
        let strat = (prop::collection::vec(prop::sample::select(TRANSPORT_POOL.to_vec()), 1..9), any::<u16>(), any::<bool>(), any::<bool>(), any::<u8>()).prop_map(|(cmds, split, sep_arg, sep_stdin, decorate)| {
            let commands: Vec<String> = cmds.iter().map(|s| s.to_string()).collect();
            let split = (split as usize * (commands.len() + 1)) >> 16;
            Case::Transport { commands, split, sep_arg, sep_stdin, decorate: decorate % 254 }
        });
        drive(ctx, rep, "transport", strat, k, &mut |c: &Case| judge_case(c));
        // lines that are not UTF-8, on standard input
        let k = ctx.share(ctx.tier.pick(1500, 20_000));
        drive(ctx, rep, "bad-bytes", bad_bytes_cases(), k, &mut |c: &Case| judge_case(c));
        // a sample through the real binary (decorate == 255 selects the process-level judge)
        std::env::set_var("VERIF_MAX_SHRINK", "40");
        let k = ctx.share(ctx.tier.pick(64, 1000));
        let strat = (prop::collection::vec(prop::sample::select(TRANSPORT_POOL.to_vec()), 1..7), any::<u16>(), any::<bool>(), any::<bool>()).prop_map(|(cmds, split, sep_arg, sep_stdin)| {
            let commands: Vec<String> = cmds.iter().map(|s| s.to_string()).collect();
            let split = (split as usize * (commands.len() + 1)) >> 16;
            Case::Transport { commands, split, sep_arg, sep_stdin, decorate: 255 }
        });
        drive(ctx, rep, "transport-cli", strat, k, &mut |c: &Case| judge_case(c));
        // ... and typed at a terminal (decorate == 254)
        let k = ctx.share(ctx.tier.pick(240, 3000));
        let strat = (prop::collection::vec(prop::sample::select(TRANSPORT_POOL.to_vec()), 1..7), any::<u16>(), any::<bool>(), prop::bool::weighted(0.75)).prop_map(|(cmds, split, sep_arg, sep_stdin)| {
            let commands: Vec<String> = cmds.iter().map(|s| s.to_string()).collect();
            let split = ((split as usize * (commands.len() + 1)) >> 16).min(commands.len().saturating_sub(1));
            Case::Transport { commands, split, sep_arg, sep_stdin, decorate: 254 }
        });
        drive(ctx, rep, "transport-tty", strat, k, &mut |c: &Case| judge_case(c));
        std::env::remove_var("VERIF_MAX_SHRINK");
        // (e) long runs of one command, through the real binary (its real main-thread stack)
        let counts: &[u32] = ctx.tier.pick(&[1000, 30_000, 70_000][..], &[1000, 30_000, 70_000, 300_000][..]);
        for (ui, unit) in LONG_UNITS.iter().enumerate() {
            for (ci, &count) in counts.iter().enumerate() {
                // quick: each (unit, count) through one delivery, rotating; thorough: all four
                for via in 0..4u8 {
                    if ctx.tier.pick(via as usize != (ui + ci) % 4, false) {
                        continue;
                    }
                    // (one `--command` argument holds at most 128 KiB)
                    if via >= 2 && (unit.len() + 1) * count as usize > 120_000 {
                        continue;
                    }
                    n += 1;
                    if !ctx.mine(n) {
                        continue;
                    }
                    judge_one(ctx, rep, &Case::LongRun { unit: unit.to_string(), count, via }, &mut |c| judge_case(c));
                }
            }
        }
        rep.exhaustive.push(format!("long runs: {} units x {:?} repetitions x deliveries, through the real binary", LONG_UNITS.len(), counts));
        // one very long line (around 2^16, 2^20, 2^22 bytes; thorough: 2^24 too)
        let lens: &[u32] = ctx.tier.pick(&[65_530, 65_536, 1 << 20, (1 << 22) - 5, (1 << 22) + 1, 5 << 20][..], &[65_530, 65_536, 1 << 20, (1 << 22) - 5, (1 << 22) + 1, 5 << 20, (1 << 24) + 1][..]);
        for &len in lens {
            n += 1;
            if ctx.mine(n) {
                judge_one(ctx, rep, &Case::LongLine { len }, &mut |c| judge_case(c));
            }
        }
        rep.exhaustive.push(format!("one `echo` line of {lens:?} characters on standard input, through the real binary"));
        // second words that are no sub-commands (other commands' names among them)
        for first in ["step", "s", "break", "b"] {
            for second in ["sudo", "SUDO", "Sudo", "sudoo", "exit", "quit", "reset", "help", "continue", "x", "0"] {
                n += 1;
                if ctx.mine(n) {
                    judge_one(ctx, rep, &Case::BadSub { first: first.to_string(), second: second.to_string() }, &mut |c| judge_case(c));
                }
            }
        }
        rep.exhaustive.push("step / s / break / b followed by a word that is no sub-command (sudo in three cases, other commands' names, junk), through the real binary on both transports".into());
    }
    fn needs_cli(&self) -> bool {
        true
    }
    fn fuzz_strategy(&self) -> Option<BoxedStrategy<Value>> {
        let tokens = prop::collection::vec(crate::pick![1 => long_token(), 2 => free_token()], 1..6).prop_map(|tokens| Case::Tokens { tokens, with_break: true });
        let transport = (prop::collection::vec(prop::sample::select(TRANSPORT_POOL.to_vec()), 1..9), any::<u16>(), any::<bool>(), any::<bool>(), any::<u8>()).prop_map(|(cmds, split, sep_arg, sep_stdin, decorate)| {
            let commands: Vec<String> = cmds.iter().map(|s| s.to_string()).collect();
            let split = (split as usize * (commands.len() + 1)) >> 16;
            Case::Transport { commands, split, sep_arg, sep_stdin, decorate: decorate % 254 }
        });
        Some(crate::fuzzmode::jv(crate::pick![6 => tokens, 2 => transport, 1 => bad_bytes_cases()]))
    }
    fn replay(&self, _ctx: &Ctx, case: &Value) -> Obs {
        match serde_json::from_value::<Case>(case.clone()) {
            Ok(c) => judge_case(&c),
            Err(e) => Obs::fail("C14:bad-replay-file", format!("cannot parse case: {e}")),
        }
    }
}
