//! C15 — eval executes the instruction it is given, here and now (differential against RefVM
//! through RefDbg's eval; malformed / off-limits text must be refused without effect).

use proptest::prelude::*;
use serde::{Deserialize, Serialize};
use serde_json::Value;

use super::c03::snap_diff;
use crate::dbgcheck::*;
use crate::engine::*;
use crate::lacebox::Stop;
use crate::proggen::{self, ProgSpec};
use crate::refasm::{Layout, Op, Operand};
use crate::refdbg::{parse_reg_dumps, Cmd, Effect, Loc, PLoc};

pub struct C15;

#[derive(Clone, Debug, Serialize, Deserialize)]
pub struct Case {
    pub spec: ProgSpec,
    pub pre_steps: u8,
    pub goto: Option<RawCmd>,
    /// register / memory set-up before the eval
    pub setup: Vec<RawCmd>,
    pub eval: RawCmd,
    /// Some(i): use malformed text #i instead of a well-formed instruction
    pub malformed: Option<u16>,
    /// when the instruction names a label that has a case-differing twin (`D0` / `d0`), first
    /// eval the same instruction on the twin: two consecutive texts that are equal up to letter case
    #[serde(default)]
    pub twin_first: bool,
    /// when the eval text names a label the program does not define, first look that name up with
    /// a debugger command (`print <name>`, which fails): a failed lookup must leave nothing behind
    /// that makes the name resolve later
    #[serde(default)]
    pub lookup_first: bool,
    /// Some(j) (with `malformed`): the malformed text is numeric edge token #j (a number at the
    /// limit of an integer width, in every spelling) in one of EDGE_FRAMES
    #[serde(default)]
    pub edge: Option<u16>,
    /// non-zero (well-formed, label-free instructions only): the instruction's tokens are written
    /// with the separators the assembler treats as blanks - commas, tabs, runs of blanks,
    /// free-standing colons, also before the mnemonic and after the last operand - and in mixed
    /// case; lace's own assembler decides that the text still is that one instruction
    #[serde(default)]
    pub spacing: u16,
}

/// Statement frames in which no number of magnitude >= 127 is a legal operand.
/// The well-formed instruction wrapped in quotes or brackets: a string literal or junk, not an
/// instruction.
pub const WRAPS: &[(&str, &str)] = &[("\"", "\""), ("'", "'"), ("(", ")"), ("[", "]"), ("<", ">"), ("`", "`"), ("\"", ""), ("", "\""), ("{", "}"), ("\" ", " \"")];
pub const EDGE_FRAMES: &[&str] = &["add r0 r0 {}", "not r1 {}", "ret {}", "{}", "{} add r0 r0 r0", "add {} r0 r0", "ldr r0 r0 {}", "jmp {}", "and r0 r0 r0 {}", "push {}", "{good} {}"];

pub const MALFORMED: &[&str] = &[
    "add r0 r0", "add r0", "add", "not r1", "ld r0", "ldr r0 r1", "str r0", "jmp", "jsrr", "trap", "push", "pop", "call", "jsr",
    "add r0 r0 r0 r0", "add r1 r1 #1 #1", "not r1 r2 r3", "ret r7", "jmp r1 r2", "ld r0 D0 D1", "out r0", "puts x1", "rets r0", "push r1 r2",
    "and r0 r0 r0 halt", "add r1 r1 #1 add r2 r2 #2", "not r0 r0 not r1 r1", "out out", "ld r1 D0 st r1 D1",
    "add r0 #1 r0", "add #1 r0 r0", "ld r0 r1", "ld D0 r0", "ldr r0 #1 r1", "jmp #1", "jmp D0", "jsrr D0", "not r0 #1", "trap r0", "push #1", "lea r0 r0",
    "add r0 r0 #16", "add r0 r0 #-17", "ldr r0 r0 #32", "ldr r0 r0 #-33", "trap x100", "trap #-1", "add r0 r0 x10000", "add r8 r0 r0", "add r0 r0 r9",
    ".fill x1", ".orig x3000", ".break", ".end", ".stringz \"a\"", ".blkw #1", ".bogus", "D0 add r0 r0 r0", "newlbl add r0 r0 r0", "add r0 r0 .fill x1",
    "@@", "12", "#1", "x3000", "r0", "\"str\"", "é", "addé r0 r0 r0", "add r0 r0 é", "add r0 r0 r0 é", "add r0 r0 #1é", "x", "#", ".", "\"unterminated",
    "ld r0 nolabel", "st r0 NoSuchLabel", "lea r1 d7", "jsr nolabel", "ld r0 MAIN+1",
    "halt", "trap x25", "HALT", "rti", "RTI", "br D0", "brnzp D0", "brz D0", "brn #1", "trap x0", "trap x1F", "trap x28", "trap xFF", "trap x26 r0",
];

/// One token too many after a complete instruction: every kind of token the assembler knows.
pub const SURPLUS: &[&str] = &[
    ".end", ".end x1", ".END r9 (", ".fill x1", ".orig x3000", ".break", ".stringz \"a\"", ".blkw #1", ".bogus", "r0", "R7", "#1", "x1", "#-1", "D0", "MAIN", "nolabel", "\"s\"",
    "halt", "ret", "add r0 r0 r0", "trap x25", "@", "é", "12", "x", "#", ".", "\"unterminated", "add",
];
/// One foreign token before the instruction.
pub const PREFIXES: &[&str] = &[".orig x3000", ".end", "newlbl", "D0", "r0", "#1", "x1", "\"s\"", ".fill x1", "halt", "@", "é", "12"];

pub fn judge_case(c: &Case) -> Obs {
    let mut obs = Obs::default();
    let mut spec = c.spec.clone();
    spec.main.retain(|op| !matches!(op, proggen::PgOp::In(_) | proggen::PgOp::InShow(_)));
    for s in &mut spec.subs {
        s.retain(|op| !matches!(op, proggen::PgOp::In(_) | proggen::PgOp::InShow(_)));
    }
    let p = match prepare(&spec, Layout::CANON) {
        Ok(p) => p,
        Err(why) => {
            obs.excluded = Some(why);
            return obs;
        }
    };
    if let Some(l) = proggen::fit_label(&spec) {
        obs.label(l);
    }
    let mut cmds: Vec<Cmd> = Vec::new();
    if c.pre_steps > 0 {
        cmds.push(Cmd::StepInto(Some(c.pre_steps as u16)));
    }
    if let Some(g) = &c.goto {
        cmds.push(Cmd::Goto(make_loc(&p, g.a & !7, g.b, g.c, LocMode::Code)));
    }
    for r in &c.setup {
        cmds.push(match r.kind % 3 {
            0 => Cmd::Move(PLoc::Reg((r.a % 8) as u8), value16(r.b, r.c)),
            1 => {
                // point a register at the data area or the stack
                let t = [p.symbols.iter().find(|(n, _)| n == "D3").map(|x| x.1).unwrap_or(p.orig), 0xFDF0, p.orig, 0xFFFF, 0][r.b as usize % 5];
                Cmd::Move(PLoc::Reg((r.a % 8) as u8), t)
            }
            _ => Cmd::Move(PLoc::Mem(make_loc(&p, 0, r.b, 0, LocMode::Code)), value16(r.a, r.c)),
        });
    }
    let stmt = make_eval_stmt(&p, &c.eval);
    let eval_cmd = match c.malformed {
        Some(i) => {
            // a text from the fixed list, or the well-formed instruction with one surplus token
            // after it / one foreign token before it ("not exactly one well-formed instruction")
            let k = (i as usize * (MALFORMED.len() + SURPLUS.len() + PREFIXES.len() + WRAPS.len())) >> 16;
            let good = crate::refdbg::stmt_text(&stmt);
            Cmd::EvalText(if let Some(j) = c.edge {
                // (#65535 / xFFFF / 0xffff are left out: whether a 16-bit pattern whose two's-complement
                // reading fits a signed field is accepted there is unspecified - RefAsm `Fit::Either`)
                let edges: Vec<&String> = super::c05::numeric_edges().iter().filter(|t| !["#65535", "xFFFF", "0xffff"].contains(&t.as_str())).collect();
                let n = (j as usize * edges.len() * EDGE_FRAMES.len()) >> 16;
                EDGE_FRAMES[n % EDGE_FRAMES.len()].replace("{good}", &good).replace("{}", edges[n / EDGE_FRAMES.len()])
            } else if k < MALFORMED.len() {
                MALFORMED[k].to_string()
            } else if k < MALFORMED.len() + SURPLUS.len() {
                format!("{good} {}", SURPLUS[k - MALFORMED.len()])
            } else if k < MALFORMED.len() + SURPLUS.len() + PREFIXES.len() {
                format!("{} {good}", PREFIXES[k - MALFORMED.len() - SURPLUS.len()])
            } else {
                let (a, b) = WRAPS[k - MALFORMED.len() - SURPLUS.len() - PREFIXES.len()];
                format!("{a}{good}{b}")
            })
        }
        None => Cmd::Eval(stmt.clone()),
    };
    if c.twin_first && c.malformed.is_none() && matches!(stmt.op, Op::Ld | Op::Ldi | Op::Lea | Op::St | Op::Sti) {
        if let Operand::Label(name) = &stmt.operand {
            let flipped: String = name.chars().map(|ch| if ch.is_ascii_uppercase() { ch.to_ascii_lowercase() } else { ch.to_ascii_uppercase() }).collect();
            let twin = [flipped, format!("{}{}", &name[..1].to_ascii_uppercase(), name[1..].to_ascii_lowercase())].into_iter().find(|t| t != name && p.symbols.iter().any(|(n, _)| n == t));
            if let Some(twin) = twin {
                let mut first = stmt.clone();
                first.operand = Operand::Label(twin);
                cmds.push(Cmd::Eval(first));
                obs.label("eval-after-case-twin-eval");
            }
        }
    }
    if c.lookup_first {
        let text = eval_cmd.text(0);
        for name in ["nolabel", "NoSuchLabel", "d7", "newlbl"] {
            if text.split_whitespace().any(|t| t == name) && !p.symbols.iter().any(|(n, _)| n == name) {
                cmds.push(Cmd::Print(PLoc::Mem(Loc::Label(name.to_string(), 0))));
                cmds.push(Cmd::Goto(Loc::Label(name.to_string(), 1)));
                obs.label("eval-after-failed-lookup-of-the-same-name");
            }
        }
    }
    let eval_index = cmds.len();
    cmds.push(eval_cmd.clone());
    cmds.push(Cmd::Move(PLoc::Reg(3), 0x1234)); // the session must go on
    cmds.push(Cmd::Exit);
    let model = run_model(&p, &cmds, &[], 5000);
    if let Some(why) = model.ambiguous {
        obs.excluded = Some(why);
        return obs;
    }
    if model.dbg.io.out.iter().any(|o| *o == crate::refvm::Out::Ch(0x1b)) {
        obs.excluded = Some("prints ESC");
        return obs;
    }
    let aliases = vec![0u8; cmds.len()];
    let mut script = script_text(&cmds, &aliases, model.kept, true, Some("exit"));
    if c.spacing != 0 && c.malformed.is_none() && !matches!(stmt.operand, Operand::Label(_)) {
        let canonical = crate::refdbg::stmt_text(&stmt);
        let mut x = c.spacing as u64;
        let mut next = |n: u64| {
            x = mix(x.wrapping_add(0x9E3779B97F4A7C15));
            (x % n) as usize
        };
        let mut text = String::from(["", "", ": ", ", ", " \t"][next(5)]);
        let toks: Vec<&str> = canonical.split(' ').collect();
        for (i, t) in toks.iter().enumerate() {
            if i > 0 {
                text.push_str([" ", ",", ", ", " ,", "\t", "  ", " , ", " : ", " :: ", ",,", " :"][next(11)]);
                if text.ends_with(':') {
                    text.push(' ');
                }
            }
            let recased: String = t.chars().map(|ch| if next(3) == 0 { ch.to_ascii_uppercase() } else { ch }).collect();
            // (hex digits and the radix prefix keep their case-insensitivity; string operands do not occur here)
            text.push_str(&recased);
        }
        text.push_str(["", "", " :", " ,", "  ", " : :"][next(6)]);
        // the assembler's verdict on the text: exactly this one instruction
        let want = crate::refasm::encode(&crate::refasm::Program { lines: vec![crate::refasm::Line { label: None, body: crate::refasm::Body::Stmt(stmt.clone()) }] }, p.built.stack).map(|i| i.words);
        let got = match lacebox_assemble(&text, p.built.stack) {
            Some(w) => Some(w),
            None => None,
        };
        if want.is_some() && got == want && script.contains(&format!("eval {canonical}")) {
            script = script.replacen(&format!("eval {canonical}"), &format!("eval {text}"), 1);
            obs.label("eval-text-with-varied-separators");
        }
    }
    let shown = show_case(&p, &script, &[]);
    obs.show = Some(shown.clone());
    obs.key = hash_of(&(&p.text, &script));
    let fuel = 8 * (model.dbg.executed + 2 * cmds.len() as u64) + 64;
    let s = run_lace(&p, &script, &[], fuel);
    let Some(out) = outcome_of(&mut obs, "C15", &s, &shown) else { return obs };
    let eff = &model.effects[eval_index];
    let pc_before = model.pre[eval_index].0;
    let refused = matches!(eff, Effect::Refused(_));
    obs.label(if c.malformed.is_some() { "malformed-text" } else if refused { "well-formed-but-refused" } else { "executed" });
    let has_label = matches!(stmt.operand, Operand::Label(_)) && c.malformed.is_none();
    let writes_mem = matches!(stmt.op, Op::St | Op::Sti | Op::Str | Op::Push | Op::Call) && c.malformed.is_none();
    if pc_before != p.orig {
        obs.label("pc-not-at-origin");
    }
    if has_label {
        obs.label("label-operand");
    }
    obs.nontrivial = refused || (pc_before != p.orig && (has_label || writes_mem));
    if out.stop != Stop::Returned {
        obs.set_fail(
            if refused { "C15:refused-eval-ends-session" } else { "C15:eval-ends-session" },
            format!("the session must go on after `{}`; it ended with {:?}\n{shown}\n{}", eval_cmd.text(0), out.stop, clip(&String::from_utf8_lossy(&out.stderr))),
        );
        return obs;
    }
    // masks: the link value of JSR/JSRR and the word pushed by CALL are unspecified for eval
    let err = String::from_utf8_lossy(&out.stderr).to_string();
    let dumps = parse_reg_dumps(&err);
    let mut model = model;
    if c.malformed.is_none() && !refused {
        if matches!(stmt.op, Op::Jsr | Op::Jsrr) {
            if let Some(d) = dumps.get(eval_index) {
                let r7 = d.r[7];
                for st in model.states.iter_mut().skip(eval_index) {
                    st.r[7] = r7;
                }
                model.dbg.vm.r[7] = r7;
                if stmt.op == Op::Jsrr && stmt.regs[0] == 7 {
                    obs.excluded = Some("eval jsrr r7: target depends on the unspecified link value");
                    return obs;
                }
            }
        }
        if stmt.op == Op::Call {
            if let Some(fin) = &out.fin {
                let sp = model.dbg.vm.r[7];
                model.dbg.vm.mem[sp as usize] = fin.mem[sp as usize];
            }
        }
    }
    let sig_class = if c.malformed.is_some() { "malformed" } else if refused { "off-limits" } else { "executed" };
    if !compare_states(&mut obs, "C15", &model, &cmds, out, &shown) {
        // re-label the generic signature with the eval class
        if let Some((sig, msg)) = obs.fail.take() {
            let sig = if sig.contains("after:eval") { format!("C15:wrong-effect:{sig_class}:{}", stmt_op(&stmt, c)) } else { sig };
            obs.fail = Some((sig, msg));
        }
        return obs;
    }
    if let Some(fin) = &out.fin {
        if let Some(d) = snap_diff(fin, &model.dbg.vm) {
            obs.set_fail(format!("C15:wrong-memory-effect:{sig_class}:{}", stmt_op(&stmt, c)), format!("{d}\n{shown}"));
            return obs;
        }
    }
    compare_output(&mut obs, "C15", &model.dbg.io.out, out, &shown);
    mode_twin(&mut obs, "C15", &p, &script, &[], fuel, out, &shown);
    obs
}

/// The words lace's assembler makes of `text` on its own (None: rejected).
fn lacebox_assemble(text: &str, stack: bool) -> Option<Vec<u16>> {
    match crate::lacebox::assemble(text, stack) {
        crate::lacebox::AsmResult::Ok(img) => Some(img.words),
        _ => None,
    }
}

fn stmt_op(stmt: &crate::refasm::Stmt, c: &Case) -> String {
    if c.malformed.is_some() {
        "text".into()
    } else {
        stmt.op.mnemonic()
    }
}

fn cases() -> impl Strategy<Value = Case> {
    (
        proggen::prog_spec(10),
        crate::pick![1 => Just(0u8), 3 => 1u8..25],
        crate::pick::opt(0.5, raw_cmd()),
        prop::collection::vec(raw_cmd(), 0..4),
        raw_cmd(),
        crate::pick::opt(0.3, any::<u16>()),
        any::<bool>(),
        any::<bool>(),
        any::<bool>(),
        crate::pick::opt(0.3, any::<u16>()),
        crate::pick![2 => Just(0u16), 1 => 1u16..=u16::MAX],
    )
        .prop_map(|(mut spec, pre_steps, goto, setup, eval, malformed, stack, twin_first, lookup_first, edge, spacing)| {
            spec.stack = stack;
            Case { spec, pre_steps, goto, setup, eval, malformed, twin_first, lookup_first, edge: edge.filter(|_| malformed.is_some()), spacing }
        })
}

impl Prop for C15 {
    fn id(&self) -> &'static str {
        "C15"
    }
    fn rule(&self) -> &'static str {
        "Sessions `step into k; goto <code address>; move ... (set up registers / memory); eval <X>; move r3 x1234; exit` on ProgGen programs, under both feature settings: X is every register / immediate / base+offset instruction form, label operands (LD, LDI, LEA, ST, STI, JSR, CALL) defined before and after the current PC, stack instructions, output traps, \
         the off-limits forms (BR*, RTI, HALT, unknown trap vectors), a third of the label-free instructions written with the separators the assembler treats as blanks (commas, tabs, runs of blanks, free-standing colons - also before the mnemonic and after the last operand) and in mixed case, once lace's own assembler has confirmed that the text still assembles to that one instruction, or a malformed text: one of ~100 fixed ones (missing, surplus and wrong-kind operands, two instructions, directives, garbage, multi-byte characters, unknown labels, out-of-range literals), or a number at the limit of an integer width (2^7..2^128, -1/0/+1, bare / zero-padded / signed / under every literal prefix) in one of 11 operand frames where no such number is legal, or the generated well-formed instruction followed by one surplus token of every kind (directives incl. .end, registers, literals, labels, strings, mnemonics, junk) or preceded by a foreign token, or wrapped in quotes or brackets (`\"add r1 r1 #5\"` is a string literal, not an instruction). \
         Oracle: allowed => the state equals RefVM executing, at the current PC, the encoding whose PC-relative field makes the effective address the label's address (registers/PC/CC after every command, full memory at the end, output); PC changes only for jumps; off-limits or malformed => nothing changes; in every case the session goes on (the following `move r3 x1234` takes effect and `exit` ends it). The link value of JSR/JSRR and the word pushed by CALL are masked; literal PC offsets are not generated. \
         One case in six is run once more in the normal (non-minimal) output mode - tables, colours, errors rendered in full: it must end the same way, after the same number of instructions, with the same final machine. Non-trivial: the text is refused / malformed, or PC != origin and the instruction has a label operand or writes memory. Distinct = hash(source, script)."
    }
    fn assumptions(&self) -> Vec<String> {
        vec!["RefDbg.eval (Appendix C / A); programs get no input".into()]
    }
    fn run_worker(&self, ctx: &Ctx, rep: &mut Report) {
        let n = ctx.share(ctx.tier.pick(30_000, 300_000));
        drive(ctx, rep, "evals", cases(), n, &mut |c: &Case| judge_case(c));
    }
    fn fuzz_strategy(&self) -> Option<BoxedStrategy<Value>> {
        Some(crate::fuzzmode::jv(cases()))
    }
    fn replay(&self, _ctx: &Ctx, case: &Value) -> Obs {
        match serde_json::from_value::<Case>(case.clone()) {
            Ok(c) => judge_case(&c),
            Err(e) => Obs::fail("C15:bad-replay-file", format!("cannot parse case: {e}")),
        }
    }
}
