//! C16 — A debugger session always makes progress (bounded-work form of the liveness claim).

use proptest::prelude::*;
use serde::{Deserialize, Serialize};
use serde_json::Value;

use crate::dbgcheck::*;
use crate::engine::*;
use crate::lacebox::{self, Stop};
use crate::proggen::{self, Ending, ProgSpec};
use crate::refasm::Layout;
use crate::refdbg::Cmd;
use crate::refvm::{self, RunStop, Vm};

pub struct C16;

#[derive(Clone, Debug, Serialize, Deserialize)]
pub struct Case {
    pub spec: ProgSpec,
    pub cmds: Vec<RawCmd>,
    /// how the script ends: 0 = end of input, 1 = `exit`, 2 = `quit`
    pub end: u8,
    /// Some(bytes): through the real binary, with the script on standard input followed by these
    /// bytes (the program's input, and whatever the debugger reads when it pauses again)
    #[serde(default)]
    pub shared: Option<Vec<u8>>,
    /// 0: nothing; otherwise the script begins with a crowd of 15..257 `break add`s on consecutive
    /// words and ends with `continue`s among which members of the crowd are removed
    /// (`dbgcheck::crowd_addrs` / `crowd_tail`)
    #[serde(default)]
    pub crowd: u16,
    /// 1 / 2: the directed program that fills every word of memory outside its own code with x4141
    /// and then prints the "string" at its origin with PUTS / PUTSP - no word anywhere ends it
    #[serde(default)]
    pub fill: u8,
}

/// Debugger and program share standard input: whatever the interleaving of command reads and
/// input traps, a finite stream ends, and with it the session (the program terminates by
/// construction on any input). The only verdicts are "the process is blocked for good" (decided
/// from its state: a single thread waiting on a lock) and a crash.
fn judge_shared(c: &Case, trailing: &[u8]) -> Obs {
    use crate::cli::{self, TempDir};
    let mut obs = Obs::default();
    obs.label("script-and-program-input-share-stdin-real-binary");
    let p = match prepare(&c.spec, Layout::CANON) {
        Ok(p) => p,
        Err(why) => {
            obs.excluded = Some(why);
            return obs;
        }
    };
    let cmds: Vec<Cmd> = c.cmds.iter().map(|r| make_control_cmd(&p, r)).collect();
    let aliases: Vec<u8> = c.cmds.iter().map(|r| r.alias).collect();
    let script = script_text(&cmds, &aliases, cmds.len(), false, [None, Some("exit"), Some("quit")][c.end as usize % 3]);
    obs.key = hash_of(&("shared", &p.text, &script, trailing));
    let sep = if obs.key % 3 == 0 { ";" } else { "\n" };
    let mut stdin: Vec<u8> = script.replace('\n', sep).into_bytes();
    stdin.extend(sep.as_bytes());
    stdin.extend(trailing);
    let shown = format!("stdin {:?}\n{}", String::from_utf8_lossy(&stdin), p.text);
    obs.show = Some(shown.clone());
    let reads = p.img.words.iter().filter(|w| matches!(**w & 0xF0FF, 0xF020 | 0xF023)).count();
    obs.nontrivial = reads >= 1 && cmds.iter().any(|c| c.is_resuming());
    let dir = TempDir::new();
    dir.write("p.asm", p.text.as_bytes());
    let mut args = vec!["debug", "p.asm", "--minimal"];
    if p.built.stack {
        args.extend(["-f", "stack"]);
    }
    let run = cli::lace(&args, dir.path(), &stdin, false, 60);
    if run.deadlocked {
        obs.set_fail(
            "C16:session-blocked-forever",
            format!("the process stopped using CPU with its only thread waiting on a lock: the session can never end although its input is finite\n{}\n{shown}", run.brief()),
        );
    } else if run.timed_out {
        obs.excluded = Some("watchdog");
    } else if run.panicked() && !String::from_utf8_lossy(&run.stderr).contains("RTI") {
        obs.set_fail("C16:session-crashes", format!("{}\n{shown}", run.brief()));
    }
    obs
}

const BUDGET: u64 = 6000;

fn obs_key_bits(cmds: &[RawCmd]) -> u64 {
    hash_of(&("plant", cmds.len(), cmds.first().map(|r| (r.a, r.b, r.c))))
}

/// A string that nothing in the whole memory terminates: whatever the trap makes of it (one lap
/// round the memory is lace's answer), the instruction ends and the session with it.
fn judge_fill(kind: u8) -> Obs {
    let mut obs = Obs::default();
    obs.key = hash_of(&("fill", kind));
    obs.nontrivial = true;
    obs.label("string-that-nothing-in-memory-terminates");
    let trap = if kind == 2 { "putsp" } else { "puts" };
    let text = format!(
        ".orig x3000\nstart ld r1, val\nld r4, lastbelow\nnot r4, r4\nlea r2, last\nadd r2, r2, #2\nloop str r1, r2, #0\nadd r2, r2, #1\nadd r3, r2, r4\nbrnp loop\nlea r0, start\n{trap}\nhalt\nval .fill x4141\nlastbelow .fill x2FFF\nlast .fill x4141\n"
    );
    obs.show = Some(format!("script `continue` / end of input on:\n{text}"));
    let s = lacebox::run_session(
        lacebox::Load::Source { text: text.clone(), debugger: Some(Some("continue".to_string())) },
        lacebox::RunSpec { stack: false, minimal: true, fuel: 2_000_000, input: vec![] },
    );
    let Some(out) = outcome_of(&mut obs, "C16", &s, &text) else { return obs };
    if out.stop == Stop::OutOfFuel {
        obs.set_fail("C16:session-does-not-return", format!("2,000,000 loop iterations spent; the program fills memory in about 262,000 instructions and then prints one string\n{text}"));
    }
    obs
}

pub fn judge_case(c: &Case) -> Obs {
    if c.fill != 0 {
        return judge_fill(c.fill);
    }
    if let Some(trailing) = &c.shared {
        return judge_shared(c, trailing);
    }
    let mut obs = Obs::default();
    let p = match prepare(&c.spec, Layout::CANON) {
        Ok(p) => p,
        Err(why) => {
            obs.excluded = Some(why);
            return obs;
        }
    };
    if let Some(l) = proggen::fit_label(&c.spec) {
        obs.label(l);
    }
    // a quarter of the scripts first write a HALT over a word of the image (`move <address> xF025`):
    // execution may reach a HALT that the loaded image does not have (the bound below is taken from
    // the reference run of the image as the script has changed it)
    let planted: Option<u16> = if obs_key_bits(&c.cmds) % 4 == 0 && !c.cmds.is_empty() && !p.img.words.is_empty() {
        Some(p.orig.wrapping_add(((c.cmds[0].b as usize * p.img.words.len()) >> 16) as u16))
    } else {
        None
    };
    let mut vm0 = Vm::load(p.orig, &p.img.words, p.built.stack);
    if let Some(a) = planted {
        vm0.mem[a as usize] = 0xF025;
    }
    let rr = refvm::run(vm0, &[], BUDGET + proggen::extra_budget(&c.spec), Some(0xFFFD));
    match &rr.stop {
        RunStop::OutOfFuel => {
            obs.excluded = Some("program does not terminate within the budget");
            return obs;
        }
        RunStop::Unspecified(k) => {
            obs.excluded = Some(k);
            return obs;
        }
        _ => {}
    }
    let mut cmds: Vec<Cmd> = c.cmds.iter().map(|r| make_control_cmd(&p, r)).collect();
    let mut aliases: Vec<u8> = c.cmds.iter().map(|r| r.alias).collect();
    if let Some(a) = planted {
        cmds.insert(0, Cmd::Move(crate::refdbg::PLoc::Mem(crate::refdbg::Loc::Abs(a, 0)), 0xF025));
        aliases.insert(0, 0);
        obs.label("script-plants-a-halt");
    }
    if c.crowd != 0 {
        let addrs = crowd_addrs(&p, c.crowd);
        let mut all: Vec<Cmd> = addrs.iter().map(|a| Cmd::BreakAdd(crate::refdbg::Loc::Abs(*a, 0))).collect();
        let np = all.len();
        all.extend(cmds);
        all.extend(crowd_tail(&addrs, c.crowd));
        cmds = all;
        let mut al = vec![0u8; np];
        al.extend(aliases);
        al.resize(cmds.len(), 0);
        aliases = al;
        obs.label("crowd-of-breakpoints");
    }
    let script = script_text(&cmds, &aliases, cmds.len(), false, [None, Some("exit"), Some("quit")][c.end as usize % 3]);
    let shown = show_case(&p, &script, &[]);
    obs.show = Some(shown.clone());
    obs.key = hash_of(&(&p.text, &script));
    let ncmds = cmds.len() as u64 + 1;
    let fuel = 8 * (rr.steps + ncmds) + 64;
    // the bound is on counters (hooks H3, H4, H6), not on the transcript: a third of the sessions
    // run in the normal (non-minimal) output mode
    let minimal = obs.key % 3 != 0;
    obs.label(if minimal { "output-mode-minimal" } else { "output-mode-normal" });
    let s = if minimal { run_lace(&p, &script, &[], fuel) } else { run_lace_mode(&p, &script, &[], fuel, false) };
    let Some(out) = outcome_of(&mut obs, "C16", &s, &shown) else { return obs };
    let err = String::from_utf8_lossy(&lacebox::strip_sgr(&out.stderr)).to_string();
    let err = err.replace("Reached HALT", "Reached::Halt").replace("Out of bounds of user program memory", "OutOfBounds::ProgramCounter");
    let at_edge = err.contains("OutOfBounds::ProgramCounter") || err.contains("Reached::Halt");
    let resumes = cmds.iter().filter(|c| c.is_resuming()).count();
    obs.nontrivial = at_edge && resumes >= 1;
    match c.spec.ending {
        Ending::JmpFfff => obs.label("program-jumps-to-ffff"),
        Ending::BelowOrigin => obs.label("program-jumps-below-origin"),
        Ending::AboveUser => obs.label("program-jumps-above-user-space"),
        Ending::Halt | Ending::HaltMiddle | Ending::RunOff => obs.label("program-halts"),
        _ => obs.label("program-error-exit"),
    }
    if err.contains("OutOfBounds::ProgramCounter") {
        obs.label("session-paused-out-of-bounds");
    }
    if err.contains("Reached::Halt") {
        obs.label("session-parked-on-halt");
    }
    if out.stop == Stop::OutOfFuel {
        obs.set_fail(
            "C16:session-does-not-return",
            format!("{} run-loop + {} debugger-loop iterations spent for {} executed instructions and {} commands; the program itself stops after {} instructions\n{shown}\n--- debugger output ---\n{}", out.ticks, out.inner_ticks, out.execs, ncmds, rr.steps, clip(&err)),
        );
        return obs;
    }
    let bound = 2 * (out.execs + ncmds) + 4;
    let inner_bound = 3 * (out.execs + ncmds) + 6;
    if out.ticks > bound || out.inner_ticks > inner_bound {
        obs.set_fail(
            "C16:work-not-bounded",
            format!(
                "{} run-loop iterations (bound {bound}) and {} iterations of the debugger's own loop (bound {inner_bound}) for {} executed instructions and {} commands\n{shown}",
                out.ticks, out.inner_ticks, out.execs, ncmds
            ),
        );
    }
    obs
}

fn cases() -> impl Strategy<Value = Case> {
    let ending = crate::pick![3 => Just(Ending::JmpFfff), 2 => Just(Ending::BelowOrigin), 2 => Just(Ending::AboveUser), 2 => Just(Ending::Halt), 1 => Just(Ending::HaltMiddle), 1 => Just(Ending::RunOff), 1 => Just(Ending::UnknownTrap)];
    let mixed = prop::collection::vec(raw_cmd(), 0..12);
    // step-heavy scripts walk through the program, so that `step` lands on every call
    let steppy = prop::collection::vec(
        (prop::sample::select(vec![0u8, 0, 0, 0, 0, 3, 6, 8]), raw_cmd()).prop_map(|(k, mut r)| {
            r.kind = k;
            r
        }),
        4..40,
    );
    let spec = crate::pick![5 => proggen::with_spin(proggen::prog_spec(12)).boxed(), 1 => proggen::raw_image_spec(super::c03::image_words()).boxed()];
    (spec, ending, crate::pick![3 => mixed, 2 => steppy], 0u8..3, crate::pick![7 => Just(0u16), 1 => 1u16..=2000]).prop_map(|(mut spec, ending, mut cmds, end, crowd)| {
        spec.ending = ending;
        if crowd != 0 {
            cmds.truncate(8);
        }
        Case { spec, cmds, end, shared: None, crowd, fill: 0 }
    })
}

fn shared_cases() -> impl Strategy<Value = Case> {
    // programs that read input here and there; control commands; trailing bytes that can be
    // program input but never spell a command
    let spec = (proggen::prog_spec(10), prop::collection::vec((any::<u16>(), any::<bool>()), 1..4)).prop_map(|(mut spec, reads)| {
        for (at, echo) in reads {
            let i = (at as usize * (spec.main.len() + 1)) >> 16;
            spec.main.insert(i, proggen::PgOp::InShow(echo));
        }
        spec.fit = 0;
        spec
    });
    let trailing = prop::collection::vec(prop::sample::select(b"0123456789+.=# \n;".to_vec()), 0..12);
    (spec, prop::collection::vec(raw_cmd(), 0..8), 0u8..3, trailing).prop_map(|(spec, cmds, end, trailing)| Case { spec, cmds, end, shared: Some(trailing), crowd: 0, fill: 0 })
}

impl Prop for C16 {
    fn id(&self) -> &'static str {
        "C16"
    }
    fn rule(&self) -> &'static str {
        "ProgGen programs whose reference run stops within a known bound, with endings weighted towards computed jumps to 0xFFFF, below the origin, to >= 0xFE00 and parking on HALT x scripts of 0-11 mixed (or 4-39 step-heavy) resuming / breakpoint commands (step, step into k incl. 65535, step out, continue, break add/remove) ended by end of input, `exit` or `quit`; a quarter of the scripts first write a HALT over a word of the code; an eighth of the scripts begin with a crowd of 15..257 `break add`s on consecutive words and end with up to 40 `continue`s among which members of the crowd are removed. \
         Oracle (the statement's own bound, decided by deterministic fuel, never a timer; a session that burns 20 s of its thread's CPU time without one iteration of either hooked loop - hook H7 - is reported as spinning): with ticks = iterations of the run loop (hook H3), execs = executed instructions (H4), cmds = commands + 1: with inner = iterations of the debugger's own loop (H6), which shares the fuel: the session returns before 8*(bound + cmds) + 64 iterations in total, ticks <= 2*(execs + cmds) + 4 and inner <= 3*(execs + cmds) + 6. \
         Plus, through the real binary: programs that read input here and there, with a script of control commands on standard input followed by bytes that are program input (debugger and program share the stream, `;` or newline separated): the process must end; the verdict 'blocked for good' is read from the process state (its only thread waits in the futex system call, no CPU time used, four samples 0.4 s apart), never from a time limit. Plus the directed program that fills the whole memory with x4141 and then prints a string that nothing terminates (PUTS, PUTSP): the session must end. Non-trivial: the session reaches a PC outside user space or parks on HALT and issues >= 1 resuming command. Distinct = hash(source, script)."
    }
    fn level(&self) -> &'static str {
        "exploration"
    }
    fn assumptions(&self) -> Vec<String> {
        vec!["liveness is decided only in the bounded-work form the statement gives; blocking reads from a terminal are out of reach".into()]
    }
    fn needs_cli(&self) -> bool {
        true
    }
    fn run_worker(&self, ctx: &Ctx, rep: &mut Report) {
        let n = ctx.share(ctx.tier.pick(30_000, 300_000));
        // debugger and program sharing standard input, through the real binary (first: a process that
        // blocks can be diagnosed and killed, a blocked thread of this worker cannot)
        std::env::set_var("VERIF_MAX_SHRINK", "40");
        let n2 = ctx.share(ctx.tier.pick(800, 12_000));
        drive(ctx, rep, "shared-stdin", shared_cases(), n2, &mut |c: &Case| judge_case(c));
        std::env::remove_var("VERIF_MAX_SHRINK");
        drive(ctx, rep, "sessions", cases(), n, &mut |c: &Case| judge_case(c));
        // a string that nothing in memory terminates (PUTS, PUTSP)
        for kind in [1u8, 2] {
            if ctx.worker == (kind as usize * 5) % ctx.nworkers {
                let spec = ProgSpec { main: vec![], subs: vec![], sub_call: vec![], ending: Ending::Halt, orig_sel: 0, orig_val: 0x3000, stack: false, recursion: 0, data: vec![0], strings: vec![String::new()], raw_words: None, fit: 0, spin: 0 };
                judge_one(ctx, rep, &Case { spec, cmds: vec![], end: 0, shared: None, crowd: 0, fill: kind }, &mut |c| judge_case(c));
            }
        }
        rep.exhaustive.push("the program that fills every word of memory outside its own code with x4141 and prints the string at its origin with PUTS / PUTSP: the session must end".into());
    }
    fn fuzz_strategy(&self) -> Option<BoxedStrategy<Value>> {
        Some(crate::fuzzmode::jv(cases()))
    }
    fn replay(&self, _ctx: &Ctx, case: &Value) -> Obs {
        match serde_json::from_value::<Case>(case.clone()) {
            Ok(c) => judge_case(&c),
            Err(e) => Obs::fail("C16:bad-replay-file", format!("cannot parse case: {e}")),
        }
    }
}
