//! C17 — The debugger's view of source and symbols matches the assembler's.
//! Round trip text <-> address through `assembly`, `goto <label+-k>` and `print <label>`.

use proptest::prelude::*;
use serde::{Deserialize, Serialize};
use serde_json::Value;

use crate::dbgcheck::{clip, outcome_of};
use crate::engine::*;
use crate::gen::*;
use crate::lacebox::{self, Load, RunSpec, Stop};
use crate::refasm::*;
use crate::refdbg::parse_reg_dumps;

pub struct C17;

#[derive(Clone, Debug, Serialize, Deserialize)]
pub struct Case {
    pub raw: RawProgram,
    pub layout: Layout,
    pub offs: Vec<i16>,
}

pub fn judge_case(c: &Case) -> Obs {
    let mut obs = Obs::default();
    let mut raw = c.raw.clone();
    // keep programs small enough to walk every address
    for l in &mut raw.lines {
        if l.kind % N_KINDS == 27 && l.lit.cls == 11 {
            l.lit.cls = 7;
        }
    }
    let program = build_program(&raw);
    let img = match judge(&program, raw.stack) {
        Verdict::Accept(img) => img,
        Verdict::Reject(w) | Verdict::Unspecified(w) | Verdict::Either(_, w) => {
            obs.excluded = Some(w);
            return obs;
        }
    };
    let orig = img.orig.unwrap_or(0x3000);
    let n = img.words.len();
    if n == 0 || orig as usize + n + 1 > 0x10000 {
        obs.excluded = Some("empty program or image does not fit");
        return obs;
    }
    let r = render(&program, c.layout);
    // expected text per address
    let text_at = |a: i64| -> String {
        let i = a - orig as i64;
        if i < 0 || i >= n as i64 {
            return String::new();
        }
        let li = img.word_line[i as usize];
        match r.stmt_span[li] {
            Some((s, e)) => r.text[s..e].to_string(),
            None => String::new(),
        }
    };
    let mut lines: Vec<String> = Vec::new();
    let mut expect_asm: Vec<(u16, String)> = Vec::new();
    let lo = (orig as i64 - 2).max(0);
    let hi = (orig as i64 + n as i64 + 2).min(0xFFFF);
    for a in lo..=hi {
        lines.push(format!("echo A{a}"));
        lines.push(match a % 3 {
            0 => format!("assembly x{a:x}"),
            1 => format!("a #{a}"),
            _ => format!("asm 0x{a:04X}"),
        });
        expect_asm.push((a as u16, text_at(a)));
    }
    lines.push("echo ENDASM".into());
    // half of the sessions first offer every label to `eval` in front of an instruction (a source
    // line pasted verbatim): that is not one instruction, it is refused, and the label must stay
    // where the assembler put it (round p)
    let pasted = (hash_of(&(&r.text, raw.stack)) >> 7) & 1 == 0;
    if pasted {
        for (name, _) in img.labels.iter().take(10) {
            lines.push(format!("eval {name} add r0 r0 #0"));
        }
    }
    // labels: goto L+-k and print L
    let user = |a: i64| a >= orig as i64 && a < 0xFE00;
    let mut expect_goto: Vec<(String, Option<u16>)> = Vec::new();
    let mut expect_print: Vec<(String, u16)> = Vec::new();
    for (k, (name, idx)) in img.labels.iter().enumerate().take(10) {
        // `x+1`, `o-2`, `b+1` are integers with a sign after the radix prefix in the documented
        // command grammar (C14's business), not label + offset
        if name.len() == 1 && "xXoObB".contains(name.as_str()) {
            continue;
        }
        // a label whose name spells an integer of the command grammar (`40`, `007`) is an integer
        // there, not a label (C14's business)
        if crate::refcmd::value(name).is_some() {
            continue;
        }
        let addr = orig as i64 + *idx as i64;
        let mut offsets = vec![0i64, 1, -1, -(*idx as i64), n as i64 - *idx as i64, -(*idx as i64) - 1];
        if let Some(o) = c.offs.get(k) {
            offsets.push(*o as i64);
        }
        for off in offsets {
            if !(-32768..=32767).contains(&off) {
                continue;
            }
            let spelled = if off == 0 {
                name.clone()
            } else if off > 0 {
                format!("{name}+{}", if k % 2 == 0 { format!("{off}") } else { format!("x{off:x}") })
            } else {
                format!("{name}-{}", if k % 2 == 0 { format!("#{}", -off) } else { format!("{}", -off) })
            };
            let target = addr + off;
            lines.push(format!("goto {spelled}"));
            lines.push("registers".into());
            expect_goto.push((spelled, if user(target) && target <= 0xFFFF { Some(target as u16) } else { None }));
        }
        if user(addr) {
            lines.push(format!("echo P{}", expect_print.len()));
            lines.push(format!("print {name}"));
            let word = if (*idx) < n { img.words[*idx] } else { 0xF025 };
            expect_print.push((name.clone(), word));
        }
    }
    lines.push("echo ENDPRINT".into());
    lines.push("exit".into());
    let script = lines.join("\n");
    let shown = format!("{} addresses, {} labels, stack={}\n{}", expect_asm.len(), img.labels.len(), raw.stack, r.text);
    obs.show = Some(shown.clone());
    obs.key = hash_of(&(&r.text, raw.stack));

    let multiword = program.lines.iter().any(|l| matches!(&l.body, Body::Stmt(s) if s.size().unwrap_or(1) > 1));
    let mut prev_operands = false;
    let mut operandless_after = false;
    for l in &program.lines {
        if let Body::Stmt(s) = &l.body {
            let has_ops = !s.regs.is_empty() || s.operand != Operand::None;
            if !has_ops && prev_operands {
                operandless_after = true;
            }
            prev_operands = has_ops;
        }
    }
    let multibyte = !r.text.is_ascii();
    if pasted && !img.labels.is_empty() {
        obs.label("labelled-lines-offered-to-eval-first");
    }
    if multiword {
        obs.label("multi-word-directive");
    }
    if operandless_after {
        obs.label("operandless-after-operandful");
    }
    if multibyte {
        obs.label("multi-byte-text");
    }
    if orig != 0x3000 {
        obs.label("non-default-origin");
    }
    if orig >= 0x8000 || orig as usize + n >= 0x8000 {
        obs.label("addresses-above-7fff");
    }
    obs.nontrivial = multiword && operandless_after && (orig != 0x3000 || multibyte);

    let s = lacebox::run_session(
        Load::Source { text: r.text.clone(), debugger: Some(Some(script.clone())) },
        RunSpec { stack: raw.stack, minimal: true, fuel: 10 * lines.len() as u64 + 100, input: vec![] },
    );
    let Some(out) = outcome_of(&mut obs, "C17", &s, &shown) else { return obs };
    if out.stop != Stop::Returned {
        obs.set_fail("C17:session-ended-abnormally", format!("{:?}\n{shown}", out.stop));
        return obs;
    }
    let err = String::from_utf8_lossy(&out.stderr).to_string();
    // assembly texts: between "[A<a>]" and the next marker
    let mut got_asm: std::collections::BTreeMap<u16, String> = Default::default();
    let mut cur: Option<(u16, Vec<&str>)> = None;
    for l in err.lines() {
        let marker = l.strip_prefix("[A").and_then(|x| x.strip_suffix(']')).and_then(|x| x.parse::<u32>().ok());
        if marker.is_some() || l == "[ENDASM]" {
            if let Some((a, ls)) = cur.take() {
                got_asm.insert(a, ls.join("\n"));
            }
            cur = marker.map(|a| (a as u16, Vec::new()));
            if l == "[ENDASM]" {
                break;
            }
        } else if let Some((_, ls)) = &mut cur {
            ls.push(l);
        }
    }
    for (a, want) in &expect_asm {
        let got = got_asm.get(a).cloned().unwrap_or_else(|| "<no output>".into());
        // an address without a statement shows nothing (an empty line at most)
        let got_trim = got.trim_end_matches('\n');
        if got_trim != want.as_str() {
            let kind = if want.is_empty() { "text-for-address-without-statement" } else if got_trim.is_empty() { "no-text-for-statement" } else { "wrong-statement-text" };
            obs.set_fail(
                format!("C17:{kind}"),
                format!("`assembly x{a:04X}` shows {got_trim:?}, the statement there is {want:?}\n{shown}"),
            );
            return obs;
        }
    }
    // goto: the k-th registers listing belongs to the k-th goto
    let dumps = parse_reg_dumps(&err);
    let mut pc = orig;
    for (k, (spelled, target)) in expect_goto.iter().enumerate() {
        let Some(d) = dumps.get(k) else {
            obs.set_fail("C17:session-output-truncated", format!("missing register listing #{k}\n{shown}\n{}", clip(&err)));
            return obs;
        };
        if let Some(t) = target {
            pc = *t;
        }
        if d.pc != pc {
            obs.set_fail(
                if target.is_some() { "C17:label-resolves-to-wrong-address" } else { "C17:label-outside-user-space-accepted" },
                format!("after `goto {spelled}` PC is x{:04X}, expected x{pc:04X} ({})\n{shown}", d.pc, if target.is_some() { "label address + offset" } else { "refused: outside user space" }),
            );
            return obs;
        }
    }
    // print
    let mut cur: Option<usize> = None;
    let mut got_print: std::collections::BTreeMap<usize, Vec<String>> = Default::default();
    for l in err.lines() {
        let marker = l.strip_prefix("[P").and_then(|x| x.strip_suffix(']')).and_then(|x| x.parse::<usize>().ok());
        if marker.is_some() {
            cur = marker;
        } else if l == "[ENDPRINT]" || l.starts_with('[') {
            cur = None;
        } else if let Some(k) = cur {
            if l.starts_with('x') && l.len() == 5 {
                got_print.entry(k).or_default().push(l.to_string());
                cur = None;
            }
        }
    }
    for (k, (name, word)) in expect_print.iter().enumerate() {
        let want = format!("x{word:04x}");
        let got = got_print.get(&k).and_then(|v| v.first()).cloned().unwrap_or_default();
        if got != want {
            obs.set_fail("C17:print-label-wrong-word", format!("`print {name}` shows {got:?}, the word at the label is {want}\n{shown}"));
            return obs;
        }
    }
    // one case in four once more in the normal (non-minimal) output mode, where `assembly` draws
    // the statement inside its source context and `print` draws a table: the session must come
    // back to the prompt and end the same way (what is drawn there is compared by `judge_table`
    // for the breakpoint table only)
    if obs.key % 4 == 0 {
        obs.label("repeated-in-normal-output-mode");
        let s2 = lacebox::run_session(
            Load::Source { text: r.text.clone(), debugger: Some(Some(script.clone())) },
            RunSpec { stack: raw.stack, minimal: false, fuel: 10 * lines.len() as u64 + 100, input: vec![] },
        );
        if let Some(o2) = &s2.outcome {
            match &o2.stop {
                Stop::Panic(msg, loc) if !msg.contains("RTI") => {
                    let sig = if loc == "<spin>" { "C17:session-spins-without-progress".to_string() } else { format!("C17:{}", super::c01::panic_sig(msg, loc)) };
                    obs.set_fail(sig, format!("in the normal (non-minimal) output mode the session panics: {msg} at {loc}\n{shown}"));
                }
                other if *other != out.stop || o2.fin != out.fin => {
                    obs.set_fail("C17:output-mode-changes-behaviour", format!("the same session in the normal output mode ends with {:?} (minimal: {:?}); final machines {}\n{shown}", other, out.stop, if o2.fin == out.fin { "equal" } else { "differ" }));
                }
                _ => {}
            }
        }
    }
    obs
}

/// The non-minimal breakpoint table: per row the address, one of the labels at it (or nothing) and
/// the statement text (cells longer than their column are cut with an ellipsis).
pub fn judge_table(c: &Case) -> Obs {
    let mut obs = Obs::default();
    let mut raw = c.raw.clone();
    for l in &mut raw.lines {
        if l.kind % N_KINDS == 27 && l.lit.cls == 11 {
            l.lit.cls = 7;
        }
    }
    let program = build_program(&raw);
    let img = match judge(&program, raw.stack) {
        Verdict::Accept(img) => img,
        Verdict::Reject(w) | Verdict::Unspecified(w) | Verdict::Either(_, w) => {
            obs.excluded = Some(w);
            return obs;
        }
    };
    let orig = img.orig.unwrap_or(0x3000);
    let n = img.words.len();
    if n == 0 || orig as usize + n + 1 > 0xFE00 {
        obs.excluded = Some("empty program or image not entirely in user space");
        return obs;
    }
    let r = render(&program, c.layout);
    if r.text.contains('│') {
        obs.excluded = Some("source contains the table's column separator");
        return obs;
    }
    obs.key = hash_of(&("table", &r.text, raw.stack));
    obs.label("breakpoint-table");
    // breakpoints: every `.break` of the source plus up to 12 added addresses
    let mut addrs: std::collections::BTreeSet<u16> = img.breaks.iter().map(|b| orig + *b).collect();
    let mut lines: Vec<String> = Vec::new();
    for k in 0..12usize {
        let a = orig + ((k * 7 + c.offs.first().copied().unwrap_or(0) as u16 as usize) % (n + 1)) as u16;
        if addrs.insert(a) {
            lines.push(format!("break add x{a:x}"));
        }
    }
    lines.push("break list".into());
    lines.push("exit".into());
    let shown = format!("breakpoints at {addrs:04X?}\n{}", r.text);
    obs.show = Some(shown.clone());
    obs.nontrivial = addrs.len() >= 3;
    let s = lacebox::run_session(
        Load::Source { text: r.text.clone(), debugger: Some(Some(lines.join("\n"))) },
        RunSpec { stack: raw.stack, minimal: false, fuel: 2000, input: vec![] },
    );
    let Some(out) = outcome_of(&mut obs, "C17", &s, &shown) else { return obs };
    if out.stop != Stop::Returned {
        obs.set_fail("C17:session-ended-abnormally", format!("{:?}\n{shown}", out.stop));
        return obs;
    }
    let err = String::from_utf8_lossy(&lacebox::strip_sgr(&out.stderr)).to_string();
    let mut rows: Vec<(u16, String, String)> = Vec::new();
    // (a statement written across source lines makes a text cell of several lines: the cell goes
    // on until the line that ends with the column separator)
    let mut open_row: Option<(u16, String, String)> = None;
    for l in err.lines() {
        if let Some((a, label, mut text)) = open_row.take() {
            text.push('\n');
            match l.strip_suffix('│') {
                Some(rest) => {
                    text.push_str(rest);
                    rows.push((a, label, text));
                }
                None => {
                    text.push_str(l);
                    open_row = Some((a, label, text));
                }
            }
            continue;
        }
        let cells: Vec<&str> = l.split('│').collect();
        if cells.len() >= 4 && cells[1].trim().starts_with("0x") {
            if let Ok(a) = u16::from_str_radix(cells[1].trim().trim_start_matches("0x"), 16) {
                if cells.len() >= 5 {
                    rows.push((a, cells[2].to_string(), cells[3].to_string()));
                } else {
                    open_row = Some((a, cells[2].to_string(), cells[3].to_string()));
                }
            }
        }
    }
    let want_addrs: Vec<u16> = addrs.iter().copied().collect();
    let got_addrs: Vec<u16> = rows.iter().map(|r| r.0).collect();
    if got_addrs != want_addrs {
        obs.set_fail("C17:table-wrong-addresses", format!("the table lists {got_addrs:04X?}, expected {want_addrs:04X?}\n{shown}\n{}", clip(&err)));
        return obs;
    }
    let cell_matches = |cell: &str, full: &str| -> bool {
        // the cell has one leading space and is padded; a cut cell ends with an ellipsis
        let raw_width = cell.chars().count();
        let cell = cell.strip_prefix(' ').unwrap_or(cell).trim_end();
        match cell.strip_suffix('…') {
            // cutting is a concession to the column width only: the whole text (after the leading
            // and one trailing space) must not have fitted into the cell
            Some(prefix) => full.starts_with(prefix) && full.chars().count() > prefix.chars().count() && 2 + full.trim_end().chars().count() > raw_width,
            None => cell == full.trim_end(),
        }
    };
    for (a, label_cell, text_cell) in &rows {
        let i = (*a - orig) as usize;
        let labels_here: Vec<&String> = img.labels.iter().filter(|(_, li)| *li == i).map(|(n, _)| n).collect();
        let label_ok = if labels_here.is_empty() { label_cell.trim().is_empty() } else { labels_here.iter().any(|l| cell_matches(label_cell, l)) };
        if !label_ok {
            obs.set_fail("C17:table-wrong-label", format!("row x{a:04X}: label cell {label_cell:?}, labels at that address: {labels_here:?}\n{shown}"));
            return obs;
        }
        let want_text = if i < n {
            match r.stmt_span[img.word_line[i]] {
                Some((s, e)) => r.text[s..e].to_string(),
                None => String::new(),
            }
        } else {
            String::new()
        };
        if !cell_matches(text_cell, &want_text) {
            obs.set_fail("C17:table-wrong-statement-text", format!("row x{a:04X}: text cell {text_cell:?}, the statement there is {want_text:?}\n{shown}"));
            return obs;
        }
    }
    obs
}

fn cases() -> impl Strategy<Value = Case> {
    (raw_program(22), layout(), prop::collection::vec(any::<i16>(), 0..4)).prop_map(|(raw, layout, offs)| Case { raw, layout, offs })
}

impl Prop for C17 {
    fn id(&self) -> &'static str {
        "C17"
    }
    fn rule(&self) -> &'static str {
        "RefAsm programs over the whole instruction / trap / directive set (operand-less instructions after operand-ful ones, .stringz / .blkw / .fill, labels with and without colon and on their own line, commas / tabs / comments between and after operands, multi-byte characters in comments and strings, .break and .orig, origins on both sides of 0x8000, CRLF) rendered under four layout styles (the fourth writes statements across source lines); one case in four is run once more in the normal (non-minimal) output mode (source-context views, tables): it must come back to the prompt and end the same way. \
         Oracle: for every address in [origin-2, origin+n+2] minimal-mode `assembly <a>` prints exactly the renderer's text of the statement that produced that word (mnemonic/directive through last operand) and nothing for addresses without a statement; for up to 10 labels `goto L`, `goto L+-1`, to both ends of the program and one beyond, and a random signed-16-bit offset, set PC to address(L)+-k iff that is in user space (else PC stays); `print L` shows the word at L. The non-minimal breakpoint table (`.break` directives plus up to 12 added breakpoints) lists exactly the breakpoint addresses in order, and per row one of the labels at that address (or nothing) and the statement text, cut with an ellipsis where longer than the column. \
         Non-trivial: the program has a multi-word directive, an operand-less instruction following an operand-ful one, and a non-default origin or multi-byte text. Distinct = hash(rendered source, flag)."
    }
    fn assumptions(&self) -> Vec<String> {
        vec![
            "label names are [A-Za-z_][A-Za-z0-9_]* minus every spelling the documented command grammar reads as an integer or register (that precedence is C14's)".into(),
            "`assembly` is compared in minimal mode; the breakpoint table in non-minimal mode after stripping SGR sequences; the non-minimal source-context view of `assembly` is not compared".into(),
        ]
    }
    fn run_worker(&self, ctx: &Ctx, rep: &mut Report) {
        let n = ctx.share(ctx.tier.pick(6_000, 60_000));
        drive(ctx, rep, "programs", cases(), n, &mut |c: &Case| judge_case(c));
        let n = ctx.share(ctx.tier.pick(1_500, 20_000));
        drive(ctx, rep, "tables", cases(), n, &mut |c: &Case| judge_table(c));
    }
    fn fuzz_strategy(&self) -> Option<BoxedStrategy<Value>> {
        Some(crate::fuzzmode::jv(cases()))
    }
    fn replay(&self, _ctx: &Ctx, case: &Value) -> Obs {
        match serde_json::from_value::<Case>(case.clone()) {
            Ok(c) => {
                // a saved case is judged by both streams' oracles (the address walk and the table)
                let o = judge_case(&c);
                if o.fail.is_some() {
                    o
                } else {
                    let t = judge_table(&c);
                    if t.fail.is_some() { t } else { o }
                }
            }
            Err(e) => Obs::fail("C17:bad-replay-file", format!("cannot parse case: {e}")),
        }
    }
}
