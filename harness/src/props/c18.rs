//! C18 — The stack extension is gated by its feature flag, and only it.
//! Differential across the two configurations: assembler gate, VM gate, and equality of image and
//! behaviour for programs that do not use the extension.

use proptest::prelude::*;
use serde::{Deserialize, Serialize};
use serde_json::Value;

use super::c03::{image_origin, image_words, input_bytes, snap_diff};
use crate::engine::*;
use crate::lacebox::{self, AsmResult, Load, RunSpec, Stop};
use crate::proggen::{self, ProgSpec};
use crate::refasm::{self, Body, Layout, Verdict};
use crate::refvm::{self, decode_out, match_out, RunStop, Vm};

pub struct C18;

#[derive(Clone, Debug, Serialize, Deserialize)]
pub enum Case {
    /// a generated program (built with or without stack instructions), assembled and run under both flags
    Program { spec: ProgSpec, input: Vec<u8>, layout: Layout },
    /// a raw image, run under both flags
    Image { orig: u16, words: Vec<u16>, input: Vec<u8> },
    /// hand-shaped source text using the four words in some position / letter case
    Text { text: String, uses_mnemonic: bool },
    /// `step out` in the debugger under both flags
    StepOut { flag: bool },
    /// the real binary: one way of invoking it (`form`) with one spelling of the flag (`flag`:
    /// 0 none, 1 `-f stack`, 2 `--features stack`, 3 `--features=stack`, 4 `-f stack` before the
    /// file), on a program that uses / does not use the extension
    Cli { form: u8, flag: u8, uses_stack: bool },
}

/// Every way the command line reaches the feature state: run, compile + run of the object file, the
/// sub-command-less form, debug. With the flag the stack program prints its marker and exits 0;
/// without it the source is rejected with a diagnostic that names the feature (and the object
/// file stops with status 1); the plain program behaves identically either way.
fn judge_cli(form: u8, flag: u8, uses_stack: bool) -> Obs {
    use crate::cli::{self, TempDir};
    let mut obs = Obs::default();
    obs.key = hash_of(&("cli", form, flag, uses_stack));
    obs.nontrivial = true;
    obs.label("real-binary-invocation");
    let text = if uses_stack {
        ".orig x3000\nlea r0 msg\npush r0\nand r0 r0 #0\npop r0\ncall sub\nhalt\nsub puts\nrets\nmsg .stringz \"OK\"\n"
    } else {
        ".orig x3000\nlea r0 msg\njsr sub\nhalt\nsub puts\nret\nmsg .stringz \"OK\"\n"
    };
    let dir = TempDir::new();
    dir.write("p.asm", text.as_bytes());
    // 0-4: the documented spellings; 5-9: feature lists with empty words or a repeated word (the
    // list is comma-separated); 10: an empty list
    let flag = flag % 11;
    let flag_args: Vec<&str> = match flag {
        0 => vec![],
        1 | 4 => vec!["-f", "stack"],
        2 => vec!["--features", "stack"],
        3 => vec!["--features=stack"],
        5 => vec!["-f", ",stack"],
        6 => vec!["-f", "stack,"],
        7 => vec!["--features=,,stack"],
        8 => vec!["-f", "stack,stack"],
        9 => vec!["--features", "stack,,"],
        _ => vec!["-f", ""],
    };
    let with_flag = flag != 0 && flag != 10;
    let odd_list = flag >= 5;
    let build = |head: &[&str], file: &str, tail: &[&str]| -> Vec<String> {
        let mut a: Vec<String> = head.iter().map(|s| s.to_string()).collect();
        if flag == 4 {
            a.extend(flag_args.iter().map(|s| s.to_string()));
            a.push(file.to_string());
        } else {
            a.push(file.to_string());
            a.extend(flag_args.iter().map(|s| s.to_string()));
        }
        a.extend(tail.iter().map(|s| s.to_string()));
        a
    };
    let run_args = |a: &[String]| {
        let refs: Vec<&str> = a.iter().map(|s| s.as_str()).collect();
        cli::lace(&refs, dir.path(), &[], false, 60)
    };
    let (what, run) = match form % 4 {
        0 => ("lace run p.asm", run_args(&build(&["run"], "p.asm", &[]))),
        1 => ("lace p.asm", run_args(&build(&[], "p.asm", &[]))),
        2 => ("lace debug p.asm --minimal --command continue", run_args(&build(&["debug"], "p.asm", &["--minimal", "--command", "continue"]))),
        _ => {
            let c = run_args(&build(&["compile"], "p.asm", &[]));
            if c.ok() {
                ("lace compile p.asm; lace run p.lc3", run_args(&build(&["run"], "p.lc3", &[])))
            } else {
                ("lace compile p.asm", c)
            }
        }
    };
    obs.show = Some(format!("{what} with flag spelling #{} {:?} on a program that {} the extension", flag, flag_args, if uses_stack { "uses" } else { "does not use" }));
    if run.timed_out {
        obs.excluded = Some("watchdog");
        return obs;
    }
    let out = String::from_utf8_lossy(&run.stdout).to_string();
    let err = String::from_utf8_lossy(&run.stderr).to_string();
    if odd_list {
        obs.label("feature-list-with-empty-or-repeated-words");
    }
    if run.panicked() {
        obs.set_fail("C18:cli-crashes", format!("{what}: {}", run.brief()));
    } else if odd_list && run.code == Some(2) && err.contains("error:") {
        // the command line was refused as a usage error: nothing was accepted, nothing ignored
        obs.label("feature-list-refused-as-usage-error");
    } else if !uses_stack || with_flag {
        if !run.ok() || !out.contains("OK") {
            obs.set_fail(
                if uses_stack { "C18:cli-flag-not-honoured" } else { "C18:cli-plain-program-affected" },
                format!("{what} (flag spelling #{flag} {flag_args:?}): expected the program to print OK and exit 0\n{}", run.brief()),
            );
        }
    } else if run.ok() || !(err.to_lowercase().contains("stack") || out.to_lowercase().contains("stack")) {
        obs.set_fail("C18:cli-gate-missing", format!("{what} without the flag: expected a diagnostic that names the feature and an error exit\n{}", run.brief()));
    }
    obs
}

const BUDGET: u64 = 4000;

fn uses_stack_mnemonic(p: &refasm::Program) -> bool {
    p.lines.iter().any(|l| matches!(&l.body, Body::Stmt(s) if s.op.is_stack()))
}

fn run_image(orig: u16, words: &[u16], input: &[u8], stack: bool, minimal: bool) -> lacebox::Session {
    let mut raw = vec![orig];
    raw.extend(words);
    lacebox::run_session(Load::Raw(raw), RunSpec { stack, minimal, fuel: BUDGET, input: input.to_vec() })
}

/// Compare one lace run with a reference run (same comparison as C03, reduced to what C18 needs).
fn agrees(rr: &refvm::RefRun, s: &lacebox::Session, input: &[u8]) -> Result<(), String> {
    let Some(out) = &s.outcome else { return Err("image was not loaded".into()) };
    if let Stop::Panic(m, l) = &out.stop {
        return Err(format!("panic: {m} at {l}"));
    }
    match &rr.stop {
        RunStop::Unspecified(_) => return Ok(()),
        RunStop::Normal if out.stop != Stop::Returned => return Err(format!("expected a normal end, got {:?}", out.stop)),
        RunStop::Exit(c) if out.stop != Stop::Exit(*c) => return Err(format!("expected exit status {c:#x}, got {:?}", out.stop)),
        RunStop::OutOfFuel if out.stop != Stop::OutOfFuel => return Err(format!("expected to be still running, got {:?}", out.stop)),
        _ => {}
    }
    if let Err(at) = match_out(&rr.out, &decode_out(&out.stdout)) {
        return Err(format!("output differs at character {at}: {:?} vs reference {:?}", String::from_utf8_lossy(&out.stdout), refvm::out_to_string(&rr.out)));
    }
    let consumed = input.len() - out.input_left.min(input.len());
    if consumed != rr.consumed {
        return Err(format!("consumed {consumed} input bytes, reference {}", rr.consumed));
    }
    if let Some(fin) = &out.fin {
        if let Some(d) = snap_diff(fin, &rr.vm) {
            return Err(d);
        }
    }
    Ok(())
}

pub fn judge_case(c: &Case) -> Obs {
    let mut obs = Obs::default();
    match c {
        Case::Program { spec, input, layout } => {
            let built = proggen::build(spec);
            let uses = uses_stack_mnemonic(&built.program);
            let text = refasm::render(&built.program, *layout).text;
            obs.key = hash_of(&(&text, input));
            obs.show = Some(format!("input {input:?}\n{text}"));
            obs.nontrivial = uses;
            let img = match refasm::judge(&built.program, true) {
                Verdict::Accept(img) => img,
                Verdict::Reject(w) | Verdict::Unspecified(w) | Verdict::Either(_, w) => {
                    obs.excluded = Some(w);
                    return obs;
                }
            };
            let off = lacebox::assemble(&text, false);
            let on = lacebox::assemble(&text, true);
            if let AsmResult::Panic { msg, loc, .. } = &off {
                obs.set_fail(format!("C18:{}", super::c01::panic_sig(msg, loc)), format!("panic assembling with the flag off: {msg} at {loc}\n{text}"));
                return obs;
            }
            // flag on: assembles to the documented encodings
            match &on {
                AsmResult::Ok(g) if g.words == img.words && g.orig == img.orig => {}
                other => {
                    obs.set_fail("C18:flag-on-wrong-image", format!("with -f stack the program must assemble to the documented encodings; got {}\n{text}", brief(other)));
                    return obs;
                }
            }
            if uses {
                obs.label("program-uses-stack-mnemonics");
                match &off {
                    AsmResult::Err { rendered, .. } => {
                        if !rendered.to_ascii_lowercase().contains("stack") {
                            obs.set_fail("C18:diagnostic-does-not-name-feature", format!("rejected without naming the 'stack' feature:\n{rendered}"));
                        }
                    }
                    _ => obs.set_fail("C18:flag-off-accepts-stack-mnemonic", format!("without -f stack the program must be rejected\n{text}")),
                }
                // flag on: executes per RefVM
                let orig = img.orig.unwrap_or(0x3000);
                if orig as usize + img.words.len() + 1 <= 0x10000 {
                    let rr = refvm::run(Vm::load(orig, &img.words, true), input, BUDGET, Some(0xFFFD));
                    if rr.executed_reg_trap || matches!(rr.stop, RunStop::Unspecified(_)) || input.iter().take(rr.consumed).any(|b| *b >= 0x80) {
                        return obs;
                    }
                    let s = lacebox::run_session(Load::Source { text: text.clone(), debugger: None }, RunSpec { stack: true, minimal: false, fuel: BUDGET, input: input.clone() });
                    if let Err(e) = agrees(&rr, &s, input) {
                        obs.set_fail("C18:flag-on-wrong-behaviour", format!("with -f stack: {e}\n{text}"));
                    }
                    if rr.features.stack_op {
                        obs.label("stack-instruction-executed");
                    }
                }
            } else {
                obs.label("program-without-stack-mnemonics");
                // identical image under both settings
                if off != on {
                    obs.set_fail("C18:flag-changes-image", format!("a program without stack mnemonics assembles differently under the two settings: off={} on={}\n{text}", brief(&off), brief(&on)));
                    return obs;
                }
                // identical behaviour (no 0xD word is executed: the program has none... unless it
                // builds one at run time, which the reference run tells)
                let orig = img.orig.unwrap_or(0x3000);
                if orig as usize + img.words.len() + 1 > 0x10000 {
                    return obs;
                }
                let rr = refvm::run(Vm::load(orig, &img.words, true), input, BUDGET, Some(0xFFFD));
                if matches!(rr.stop, RunStop::Unspecified(_)) || input.iter().take(rr.consumed).any(|b| *b >= 0x80) {
                    obs.excluded = Some("reference run reaches unspecified behaviour");
                    return obs;
                }
                if rr.features.stack_op || rr.refused_word && rr.stop == RunStop::Exit(1) {
                    // the image holds no 0xD word, yet one is executed: the gate is asked when the
                    // word is reached, whatever the image looked like when it was loaded
                    obs.label("executes-0xD-built-at-run-time");
                    obs.nontrivial = true;
                    if rr.executed_reg_trap {
                        return obs;
                    }
                    let rr_off = refvm::run(Vm::load(orig, &img.words, false), input, BUDGET, Some(0xFFFD));
                    if matches!(rr_off.stop, RunStop::Unspecified(_)) || rr_off.executed_reg_trap {
                        return obs;
                    }
                    let s_off = lacebox::run_session(Load::Source { text: text.clone(), debugger: None }, RunSpec { stack: false, minimal: false, fuel: BUDGET, input: input.clone() });
                    if let Err(e) = agrees(&rr_off, &s_off, input) {
                        obs.set_fail("C18:vm-gate-flag-off", format!("without -f stack, reaching an opcode-0xD word that the program built at run time must stop the VM with status 1 and execute nothing: {e}\n{text}"));
                        return obs;
                    }
                    let s_on = lacebox::run_session(Load::Source { text: text.clone(), debugger: None }, RunSpec { stack: true, minimal: false, fuel: BUDGET, input: input.clone() });
                    if let Err(e) = agrees(&rr, &s_on, input) {
                        obs.set_fail("C18:flag-on-wrong-behaviour", format!("with -f stack (0xD word built at run time): {e}\n{text}"));
                    }
                    return obs;
                }
                let minimal = rr.executed_reg_trap;
                if minimal && rr.printed_escape {
                    return obs;
                }
                let a = lacebox::run_session(Load::Source { text: text.clone(), debugger: None }, RunSpec { stack: false, minimal, fuel: BUDGET, input: input.clone() });
                let b = lacebox::run_session(Load::Source { text: text.clone(), debugger: None }, RunSpec { stack: true, minimal, fuel: BUDGET, input: input.clone() });
                compare_sessions(&mut obs, &a, &b, &text);
                obs.nontrivial = rr.steps >= 10;
            }
        }
        Case::Image { orig, words, input } => {
            obs.key = hash_of(&(orig, words, input));
            obs.show = Some(format!("orig x{orig:04X} input {input:?} words {words:04X?}"));
            if *orig as usize + words.len() + 1 > 0x10000 {
                obs.excluded = Some("image does not fit");
                return obs;
            }
            let r_on = refvm::run(Vm::load(*orig, words, true), input, BUDGET, Some(0xFFFD));
            let r_off = refvm::run(Vm::load(*orig, words, false), input, BUDGET, Some(0xFFFD));
            if matches!(r_on.stop, RunStop::Unspecified(_)) || matches!(r_off.stop, RunStop::Unspecified(_)) {
                obs.excluded = Some("reference run reaches unspecified behaviour");
                return obs;
            }
            if input.iter().take(r_on.consumed.max(r_off.consumed)).any(|b| *b >= 0x80) {
                obs.excluded = Some("non-ASCII input read");
                return obs;
            }
            let minimal = r_on.executed_reg_trap || r_off.executed_reg_trap;
            if minimal && (r_on.printed_escape || r_off.printed_escape) {
                obs.excluded = Some("REG and ESC in one run");
                return obs;
            }
            let a = run_image(*orig, words, input, false, minimal);
            let b = run_image(*orig, words, input, true, minimal);
            let reaches_d = r_off.refused_word && r_off.stop == RunStop::Exit(1);
            obs.nontrivial = words.iter().any(|w| w >> 12 == 0xD);
            if reaches_d {
                obs.label("image-reaches-0xD");
                // flag off: stops with status 1 at the gate, nothing executed
                if let Err(e) = agrees(&r_off, &a, input) {
                    obs.set_fail("C18:vm-gate-flag-off", format!("without -f stack, reaching opcode 0xD must stop the VM with status 1 and execute nothing: {e}"));
                }
                if let Err(e) = agrees(&r_on, &b, input) {
                    obs.set_fail("C18:vm-flag-on", format!("with -f stack: {e}"));
                }
            } else {
                obs.label(if obs.nontrivial { "image-has-unreached-0xD" } else { "image-without-0xD" });
                compare_sessions(&mut obs, &a, &b, "");
                if let Err(e) = agrees(&r_off, &a, input) {
                    obs.set_fail("C18:wrong-behaviour", e);
                }
            }
        }
        Case::Text { text, uses_mnemonic } => {
            obs.key = hash_of(text);
            obs.show = Some(text.clone());
            obs.nontrivial = true;
            obs.label("text-four-words");
            let off = lacebox::assemble(text, false);
            let on = lacebox::assemble(text, true);
            for (name, r) in [("off", &off), ("on", &on)] {
                if let AsmResult::Panic { msg, loc, .. } = r {
                    obs.set_fail(format!("C18:{}", super::c01::panic_sig(msg, loc)), format!("panic with the flag {name}: {msg} at {loc}\n{text}"));
                    return obs;
                }
            }
            match &off {
                AsmResult::Err { rendered, .. } => {
                    if !rendered.to_ascii_lowercase().contains("stack") {
                        obs.set_fail("C18:diagnostic-does-not-name-feature", format!("flag off: rejected without naming the feature\n{text}\n{rendered}"));
                    }
                }
                _ => obs.set_fail("C18:flag-off-accepts-stack-mnemonic", format!("flag off: must be rejected\n{text}")),
            }
            if *uses_mnemonic {
                if !on.is_ok() {
                    obs.set_fail("C18:flag-on-rejects-stack-mnemonic", format!("flag on: a well-formed use of the mnemonic must assemble\n{text}\n{}", brief(&on)));
                }
            } else if on.is_ok() && !text.to_ascii_lowercase().contains("rets") {
                // (`rets` takes no operand, so "rets add r0 r0 #0" is simply two statements)
                // label position: never usable as a label under either setting
                obs.set_fail("C18:stack-word-usable-as-label", format!("flag on: the word was accepted in label position\n{text}"));
            }
        }
        Case::Cli { form, flag, uses_stack } => return judge_cli(*form, *flag, *uses_stack),
        Case::StepOut { flag } => {
            obs.key = *flag as u64;
            obs.nontrivial = true;
            obs.label("step-out-gate");
            let text = "jsr f\nhalt\nf add r0 r0 #1\nret\n".to_string();
            obs.show = Some(format!("flag={flag}: debug, commands: step into; step out; registers; quit\n{text}"));
            let s = lacebox::run_session(
                Load::Source { text, debugger: Some(Some("step into; step out; registers; quit".into())) },
                RunSpec { stack: *flag, minimal: true, fuel: 1000, input: vec![] },
            );
            let Some(out) = &s.outcome else {
                obs.set_fail("C18:step-out-session-failed", "session did not load");
                return obs;
            };
            let err = String::from_utf8_lossy(&out.stderr).to_string();
            let refused = err.contains("MissingFeature::Stack");
            if let Stop::Panic(m, l) = &out.stop {
                obs.set_fail(format!("C18:{}", super::c01::panic_sig(m, l)), format!("panic: {m} at {l}"));
            } else if !*flag && !refused {
                obs.set_fail("C18:step-out-not-refused", format!("without -f stack `step out` must be refused\n{err}"));
            } else if *flag && refused {
                obs.set_fail("C18:step-out-refused-with-flag", format!("with -f stack `step out` must work\n{err}"));
            } else if *flag && !err.contains("PC x3001") {
                // after `step into` (in f) and `step out` (RET executed) the PC is back at x3001
                obs.set_fail("C18:step-out-wrong-pc", format!("with -f stack `step out` must run until RET has executed\n{err}"));
            }
        }
    }
    obs
}

fn compare_sessions(obs: &mut Obs, a: &lacebox::Session, b: &lacebox::Session, text: &str) {
    let (Some(oa), Some(ob)) = (&a.outcome, &b.outcome) else {
        obs.set_fail("C18:load-differs", format!("loading failed under one of the settings\n{text}"));
        return;
    };
    for (n, o) in [("off", oa), ("on", ob)] {
        if let Stop::Panic(m, l) = &o.stop {
            obs.set_fail(format!("C18:{}", super::c01::panic_sig(m, l)), format!("panic with the flag {n}: {m} at {l}\n{text}"));
            return;
        }
    }
    if oa.stop != ob.stop {
        obs.set_fail("C18:flag-changes-exit", format!("exit differs: off={:?} on={:?}\n{text}", oa.stop, ob.stop));
    } else if oa.stdout != ob.stdout {
        obs.set_fail("C18:flag-changes-output", format!("output differs: off={:?} on={:?}\n{text}", String::from_utf8_lossy(&oa.stdout), String::from_utf8_lossy(&ob.stdout)));
    } else if oa.fin != ob.fin {
        obs.set_fail("C18:flag-changes-final-state", format!("final machine state differs between the two settings\n{text}"));
    } else if oa.input_left != ob.input_left {
        obs.set_fail("C18:flag-changes-input-consumption", format!("input consumption differs\n{text}"));
    }
}

fn brief(r: &AsmResult) -> String {
    match r {
        AsmResult::Ok(img) => format!("ok orig {:?} words {:04X?}", img.orig, &img.words[..img.words.len().min(16)]),
        AsmResult::Err { rendered, phase, .. } => format!("error in {phase}: {}", super::c01::first_lines(rendered, 4)),
        AsmResult::Panic { msg, loc, .. } => format!("panic {msg} at {loc}"),
    }
}

fn recase(word: &str, bits: u8) -> String {
    word.chars().enumerate().map(|(i, c)| if bits >> (i % 8) & 1 == 1 { c.to_ascii_uppercase() } else { c }).collect()
}

fn texts(ctx: &Ctx, rep: &mut Report) {
    let mut n = 0u64;
    for (word, operand) in [("push", " r3"), ("pop", " r5"), ("call", " f"), ("rets", "")] {
        for bits in 0..16u8 {
            let w = recase(word, bits);
            let cases = [
                (format!("f add r0 r0 #0\n{w}{operand}\nhalt\n"), true),
                (format!("f add r0 r0 #0\nlbl: {w}{operand}\nhalt\n"), true),
                // label position
                (format!("{w} add r0 r0 #0\nhalt\n"), false),
                (format!("{w}: halt\n"), false),
                (format!("f halt\nbr {w}\n{w} halt\n"), false),
                (format!("ld r0 {w}\nhalt\n{w} .fill x1\n"), false),
                (format!("f halt\njsr {w}\n"), false),
            ];
            for (text, uses) in cases {
                n += 1;
                if !ctx.mine(n) {
                    continue;
                }
                let c = Case::Text { text, uses_mnemonic: uses };
                judge_one(ctx, rep, &c, &mut |c| judge_case(c));
            }
        }
    }
    for flag in [false, true] {
        n += 1;
        if ctx.mine(n) {
            judge_one(ctx, rep, &Case::StepOut { flag }, &mut |c| judge_case(c));
        }
    }
    rep.exhaustive.push("the four mnemonics x 16 letter-case patterns x {instruction position, label position, operand position}".into());
}

fn cases() -> impl Strategy<Value = Case> {
    crate::pick![
        5 => (proggen::prog_spec(30), input_bytes(), crate::gen::layout()).prop_map(|(spec, input, layout)| Case::Program { spec, input, layout }),
        4 => (image_origin(), image_words(), input_bytes()).prop_map(|(orig, mut words, input)| {
            let room = 0x10000usize - orig as usize - 1;
            words.truncate(room);
            Case::Image { orig, words, input }
        }),
    ]
}

impl Prop for C18 {
    fn id(&self) -> &'static str {
        "C18"
    }
    fn rule(&self) -> &'static str {
        "Both flag values x (a) ProgGen programs with and without push/pop/call/rets, rendered under varied layouts (any keyword case), (b) arbitrary word images with raw 0xD words that are / are not reached at run time, and programs that hold no 0xD word but build one at run time and run into it (ProgGen's SynthD), (c) every one of the four words in 16 letter-case patterns in instruction, label and operand position (enumerated), (d) `step out` in the debugger, (e) the real binary invoked as run / sub-command-less / debug / compile + run of the object file, with the flag absent, spelled three ways, and placed before the file, on a program that uses and one that does not use the extension (enumerated). \
         Oracle: flag off: a stack mnemonic is rejected and the diagnostic contains 'stack'; reaching 0xD stops with exit status 1 with the machine exactly as before the word (RefVM). Flag on: the documented encodings (RefAsm) and RefVM behaviour. No stack mnemonic and no executed 0xD: identical image, output, exit, input consumption and full final state under both settings. The words are never accepted as labels. \
         Non-trivial: the program contains a stack mnemonic / the image contains a 0xD word / a text or step-out case. Distinct = hash(case)."
    }
    fn assumptions(&self) -> Vec<String> {
        vec![
            "RefVM / RefAsm as in C01-C03; runs that reach unspecified behaviour or read non-ASCII input are not compared".into(),
            "flag spellings other than the value 'stack' (duplicates, unknown names) are not asserted; the CLI spelling -f/--features is exercised in C07".into(),
        ]
    }
    fn needs_cli(&self) -> bool {
        true
    }
    fn run_worker(&self, ctx: &Ctx, rep: &mut Report) {
        texts(ctx, rep);
        // the command line's ways of reaching the feature state (real binary, enumerated)
        let mut k = 0u64;
        for form in 0..4u8 {
            for flag in 0..11u8 {
                for uses_stack in [false, true] {
                    k += 1;
                    if ctx.mine(k) {
                        judge_one(ctx, rep, &Case::Cli { form, flag, uses_stack }, &mut |c| judge_case(c));
                    }
                }
            }
        }
        rep.exhaustive.push("real binary: {run, sub-command-less, debug, compile + run of the object file} x {no flag, -f stack, --features stack, --features=stack, flag before the file, the lists `,stack` `stack,` `,,stack` `stack,stack` `stack,,` and the empty list (each either refused as a usage error or meaning what its non-empty words mean)} x {program with, without stack instructions}".into());
        let n = ctx.share(ctx.tier.pick(20_000, 200_000));
        drive(ctx, rep, "configs", cases(), n, &mut |c: &Case| judge_case(c));
    }
    fn fuzz_strategy(&self) -> Option<BoxedStrategy<Value>> {
        Some(crate::fuzzmode::jv(cases()))
    }
    fn replay(&self, _ctx: &Ctx, case: &Value) -> Obs {
        match serde_json::from_value::<Case>(case.clone()) {
            Ok(c) => judge_case(&c),
            Err(e) => Obs::fail("C18:bad-replay-file", format!("cannot parse case: {e}")),
        }
    }
}
