//! C19 — Assembling is a pure function of the source text.
//! Histories of sources on one thread with the documented reset in between, each compared with
//! the same source assembled on a fresh thread.

use proptest::prelude::*;
use serde::{Deserialize, Serialize};
use serde_json::Value;

use crate::engine::*;
use crate::gen::*;
use crate::lacebox::{self, AsmResult};
use crate::refasm::*;

pub struct C19;

#[derive(Clone, Debug, Serialize, Deserialize)]
pub struct Case {
    pub sources: Vec<String>,
    pub stack: bool,
    /// what each source is (valid / failing phase), for the class histogram
    pub kinds: Vec<String>,
    pub nontrivial: bool,
}

fn phase_of(r: &AsmResult) -> &'static str {
    match r {
        AsmResult::Ok(_) => "ok",
        AsmResult::Err { phase, .. } => phase,
        AsmResult::Panic { .. } => "panic",
    }
}

pub fn judge_case(c: &Case) -> Obs {
    let mut obs = Obs::default();
    obs.nontrivial = c.nontrivial;
    obs.key = hash_of(&(&c.sources, c.stack));
    obs.show = Some(c.sources.iter().zip(&c.kinds).map(|(s, k)| format!("--- [{k}] ---\n{s}")).collect::<Vec<_>>().join("\n"));
    let seq = lacebox::assemble_sequence(&c.sources, c.stack);
    for (k, (text, got)) in c.sources.iter().zip(&seq).enumerate() {
        let fresh = lacebox::assemble(text, c.stack);
        match phase_of(&fresh) {
            "ok" => obs.label("source-ok"),
            "lex" => obs.label("source-fails-lex"),
            "parse" => obs.label("source-fails-parse"),
            "backpatch" => obs.label("source-fails-backpatch"),
            "emit" => obs.label("source-fails-emit"),
            _ => obs.label("source-panics"),
        }
        if let AsmResult::Panic { msg, loc, .. } = got {
            obs.set_fail(format!("C19:{}", super::c01::panic_sig(msg, loc)), format!("assembly #{k} panicked: {msg} at {loc}"));
            return obs;
        }
        if *got != fresh {
            let what = match (got, &fresh) {
                (AsmResult::Ok(_), AsmResult::Ok(_)) => "different-image",
                (AsmResult::Ok(_), _) => "accepted-only-after-history",
                (_, AsmResult::Ok(_)) => "rejected-only-after-history",
                _ => "different-diagnostic",
            };
            obs.set_fail(
                format!("C19:{what}"),
                format!(
                    "assembly #{k} of the sequence ({}) differs from assembling the same source on a fresh thread ({})\n--- source #{k} ---\n{}\n--- in sequence ---\n{}\n--- fresh ---\n{}",
                    phase_of(got), phase_of(&fresh), text, brief(got), brief(&fresh)
                ),
            );
            return obs;
        }
    }
    obs
}

fn brief(r: &AsmResult) -> String {
    match r {
        AsmResult::Ok(img) => format!("orig {:?}, {} words {:04X?}, breakpoints {:?}", img.orig, img.words.len(), &img.words[..img.words.len().min(12)], img.breakpoints),
        AsmResult::Err { rendered, phase, .. } => format!("[{phase}] {}", super::c01::first_lines(rendered, 8)),
        AsmResult::Panic { msg, loc, .. } => format!("panic {msg} at {loc}"),
    }
}

/// A predecessor with `nlabels` labels (variant 0: valid, 1: fails at backpatch after recording
/// them, 2: fails on a duplicate of the last one), then sources that re-define / only reference them.
fn bulk_case(nlabels: usize, variant: usize) -> Case {
    let mut big = String::from(".orig x0\n");
    for i in 0..nlabels {
        big.push_str(&format!("L{i} .fill #{}\n", i % 1000));
    }
    let kind = match variant {
        0 => "valid",
        1 => {
            big.push_str("br undefined_lbl\n");
            "backpatch-failure"
        }
        _ => {
            big.push_str(&format!("L{} halt\n", nlabels - 1));
            "duplicate-label-failure"
        }
    };
    let redefine = format!("L5 add r0 r0 #1\nL{} br L5\nlea r1 L{}\nhalt\n", nlabels - 1, nlabels - 1);
    let only_reference = format!("ld r0 L7\nbr L{}\nhalt\n", nlabels / 2);
    let small = "start add r0 r0 #1\nbr start\n".to_string();
    Case {
        sources: vec![small.clone(), big, redefine.clone(), only_reference.clone(), small, redefine, only_reference],
        stack: variant == 1,
        kinds: vec!["valid".into(), kind.into(), "valid".into(), "backpatch-failure".into(), "valid".into(), "valid".into(), "backpatch-failure".into()],
        nontrivial: true,
    }
}

fn first_label(p: &Program) -> Option<String> {
    p.lines.iter().find_map(|l| l.label.as_ref().map(|(n, _)| n.clone()))
}

fn label_positions(p: &Program) -> Vec<(String, usize)> {
    match judge(p, true) {
        Verdict::Accept(img) | Verdict::Either(img, _) => img.labels,
        _ => vec![],
    }
}

fn cases() -> impl Strategy<Value = Case> {
    (
        prop::collection::vec((raw_program(12), 0u8..13, any::<u8>()), 2..8),
        any::<u8>(),
        any::<bool>(),
    )
        .prop_map(|(items, name_off, stack)| {
            let mut sources: Vec<String> = Vec::new();
            let mut kinds = Vec::new();
            let mut nontrivial = false;
            let mut prev_labels: Vec<(String, usize)> = Vec::new();
            let mut prev_failed_after_labels = false;
            for (mut raw, variant, lay) in items {
                raw.name_off = name_off; // share label names across the sequence
                raw.stack = stack;
                let p = build_program(&raw);
                let layout = Layout { seed: lay as u64, style: lay % 3, end: lay & 8 != 0 };
                let mut text = render(&p, Layout { end: false, ..layout }).text;
                if !text.ends_with('\n') {
                    text.push('\n');
                }
                let labels = label_positions(&p);
                let kind;
                let mut fails_after_labels = false;
                match variant {
                    0..=2 => kind = "valid",
                    3 => {
                        text.push_str("@@@ bad token\n");
                        kind = "lexer-failure-at-end";
                    }
                    4 => {
                        text = format!("$ bad\n{text}");
                        kind = "lexer-failure-at-start";
                    }
                    5 => {
                        text.push_str("tail_lbl add r0\n");
                        kind = "parser-failure-after-labels";
                        fails_after_labels = !labels.is_empty();
                    }
                    6 => {
                        text.push_str("br undefined_lbl\n");
                        kind = "backpatch-failure";
                        fails_after_labels = !labels.is_empty();
                    }
                    7 => {
                        text.push_str("br far_lbl\n.blkw #600\nfar_lbl halt\n");
                        kind = "emit-failure";
                        fails_after_labels = true;
                    }
                    8 => {
                        if let Some(l) = first_label(&p) {
                            text.push_str(&format!("{l} halt\n"));
                            kind = "duplicate-label-failure";
                            fails_after_labels = true;
                        } else {
                            kind = "valid";
                        }
                    }
                    10 | 11 | 12 => {
                        // a stack mnemonic, in some letter case: with the feature off the lexer
                        // refuses it (at the end, at the start, or right after the first line)
                        let line = ["PUSH R0\n", "Pop r1\n", "pUsH r2\n", "CALL start_\n", "Rets\n", "push r0\n", "RETS\n", "cAll x_y\n"][lay as usize % 8];
                        match variant {
                            10 => text.push_str(line),
                            11 => text = format!("{line}{text}"),
                            _ => {
                                let at = text.find('\n').map(|i| i + 1).unwrap_or(text.len());
                                text.insert_str(at, line);
                            }
                        }
                        kind = "stack-mnemonic-line";
                    }
                    _ => {
                        if let Some(prev) = sources.last() {
                            text = prev.clone();
                            kind = "repeat-of-previous";
                        } else {
                            kind = "valid";
                        }
                    }
                }
                // non-trivial: shares a label name with its predecessor, which either failed after
                // recording it or defined it at a different line
                if !sources.is_empty() {
                    for (n, at) in &labels {
                        if let Some((_, pat)) = prev_labels.iter().find(|(pn, _)| pn == n) {
                            if prev_failed_after_labels || pat != at {
                                nontrivial = true;
                            }
                        }
                    }
                }
                prev_labels = labels;
                prev_failed_after_labels = fails_after_labels;
                sources.push(text);
                kinds.push(kind.to_string());
            }
            Case { sources, stack, kinds, nontrivial }
        })
}

impl Prop for C19 {
    fn id(&self) -> &'static str {
        "C19"
    }
    fn rule(&self) -> &'static str {
        "Sequences of 2-7 generated sources assembled on one thread with lace::reset_state() between them: valid programs; failing in the lexer (at start / end), in the parser after labels were recorded, at backpatch (undefined label), at emission (label out of reach), \
         on a duplicate label; holding a line with a stack mnemonic in some letter case (refused by the lexer when the feature is off); the previous source repeated; plus directed sequences whose second source records 300 .. 60,000 labels (valid, failing at backpatch, failing on a duplicate) followed by small sources that re-define and that only reference those names; and a failing source whose undefined label has several case-differing siblings among its own labels, after predecessors of 0..1000 labels; all drawing label names from the same pool slice so that consecutive sources share names; both feature settings. Oracle: every assembly of the sequence equals (image words, origin, breakpoints, statement spans, or rendered diagnostic + spans) \
         the assembly of the same text on a fresh thread. Non-trivial: consecutive sources share >= 1 label name and the earlier one failed after recording it or defined it at a different word. Distinct = hash(sequence, flag)."
    }
    fn assumptions(&self) -> Vec<String> {
        vec![
            "a fresh thread is the clean slate (lace's state is thread-local); features are fixed per thread as in the CLI".into(),
            "the watch closure itself (reset + reclaim order, process level) is exercised in C07".into(),
        ]
    }
    fn run_worker(&self, ctx: &Ctx, rep: &mut Report) {
        let n = ctx.share(ctx.tier.pick(20_000, 200_000));
        drive(ctx, rep, "sequences", cases(), n, &mut |c: &Case| {
            let mut o = judge_case(c);
            for k in &c.kinds {
                o.label(match k.as_str() {
                    "valid" => "kind-valid",
                    "lexer-failure-at-end" | "lexer-failure-at-start" => "kind-lexer-failure",
                    "parser-failure-after-labels" => "kind-parser-failure-after-labels",
                    "backpatch-failure" => "kind-backpatch-failure",
                    "emit-failure" => "kind-emit-failure",
                    "duplicate-label-failure" => "kind-duplicate-label",
                    "stack-mnemonic-line" => "kind-stack-mnemonic-line",
                    _ => "kind-repeat",
                });
            }
            o
        });
        // large predecessors: a source that records very many labels (so that whatever holds them
        // has grown), valid or failing after recording them, followed by small sources that define
        // and reference the same names
        // a failing source whose diagnostic could name one of several of its own labels (labels that
        // differ only in letter case from the undefined one), after predecessors of growing size:
        // whatever order a container happens to iterate in must not show
        let mut k = 0u64;
        for npred in [0usize, 1, 3, 4, 7, 8, 15, 16, 31, 32, 63, 64, 200, 1000] {
            k += 1;
            if !ctx.mine(k) {
                continue;
            }
            let mut pred = String::new();
            for i in 0..npred {
                pred.push_str(&format!("p{i} .fill #{i}\n"));
            }
            pred.push_str("halt\n");
            let siblings = "Loop add r0 r0 #1\nLOOP add r1 r1 #1\nlOOp add r2 r2 #1\nlooP add r3 r3 #1\nFoo .fill x1\nfOO .fill x2\nbrp loop\nld r0 foo\nhalt\n".to_string();
            let case = Case {
                sources: vec![pred.clone(), siblings.clone(), pred, siblings],
                stack: false,
                kinds: vec!["valid".into(), "backpatch-failure".into(), "valid".into(), "backpatch-failure".into()],
                nontrivial: true,
            };
            judge_one(ctx, rep, &case, &mut |c| {
                let mut o = judge_case(c);
                o.label("kind-undefined-label-with-case-siblings");
                o
            });
        }
        for nlabels in [300usize, 5_000, 20_000, 30_000, 45_000, 60_000] {
            for variant in 0..3 {
                k += 1;
                if !ctx.mine(k) {
                    continue;
                }
                let case = bulk_case(nlabels, variant);
                judge_one(ctx, rep, &case, &mut |c| {
                    let mut o = judge_case(c);
                    o.label("kind-predecessor-with-very-many-labels");
                    o
                });
            }
        }
    }
    fn fuzz_strategy(&self) -> Option<BoxedStrategy<Value>> {
        Some(crate::fuzzmode::jv(cases()))
    }
    fn replay(&self, _ctx: &Ctx, case: &Value) -> Obs {
        match serde_json::from_value::<Case>(case.clone()) {
            Ok(c) => judge_case(&c),
            Err(e) => Obs::fail("C19:bad-replay-file", format!("cannot parse case: {e}")),
        }
    }
}
