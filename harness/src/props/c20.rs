//! C20 — The interactive line editor keeps its cursor inside the line.
//! Stateful, model-based, with exhaustive bounded enumeration of key sequences (hook H5).

use proptest::prelude::*;
use serde::{Deserialize, Serialize};
use serde_json::Value;

use lace::debugger::verif_term::{VerifKey, VerifTerminal};

use crate::engine::*;
use crate::lacebox::{self, Stop};
use crate::refedit::{Edit, K};

pub struct C20;

pub const KEYS: [K; 17] = [
    K::Ch('a'),
    K::Ch('Z'),
    K::Ch('7'),
    K::Ch(' '),
    K::Ch('+'),
    K::Ch(';'),
    K::Ch('é'),
    K::Ch('😀'),
    K::Bs,
    K::Del,
    K::Left,
    K::Right,
    K::CLeft,
    K::CRight,
    K::Up,
    K::Down,
    K::Enter,
];

#[derive(Clone, Debug, Serialize, Deserialize)]
pub struct Case {
    pub history: Vec<String>,
    pub keys: Vec<K>,
}

fn to_lace(k: K) -> VerifKey {
    match k {
        K::Ch(c) => VerifKey::Char(c),
        K::Bs => VerifKey::Backspace,
        K::Del => VerifKey::Delete,
        K::Left => VerifKey::Left,
        K::Right => VerifKey::Right,
        K::CLeft => VerifKey::CtrlLeft,
        K::CRight => VerifKey::CtrlRight,
        K::Up => VerifKey::Up,
        K::Down => VerifKey::Down,
        K::Enter => VerifKey::Enter,
    }
}

fn show(keys: &[K]) -> String {
    keys.iter()
        .map(|k| match k {
            K::Ch(' ') => "Space".to_string(),
            K::Ch(c) => format!("'{c}'"),
            other => format!("{other:?}"),
        })
        .collect::<Vec<_>>()
        .join(" ")
}

/// Feed the keys to lace's editor and to RefEdit. `probe`: after the sequence, type 'Q' and press
/// Enter so that the cursor position and the buffer become visible in the submitted text.
fn run_keys(history: &[String], keys: &[K], probe: bool) -> Option<(String, String)> {
    let mut all: Vec<K> = keys.to_vec();
    if probe {
        all.push(K::Ch('Q'));
    }
    all.push(K::Enter);
    let hist = history.to_vec();
    let (res, stop) = lacebox::guarded(move || -> Option<(String, String)> {
        let mut term = VerifTerminal::new(hist.clone());
        let mut model = Edit::new(hist);
        term.begin_line();
        model.begin_line();
        for (i, k) in all.iter().enumerate() {
            let submitted = term.handle_key(to_lace(*k));
            let want = model.key(*k);
            let count = term.current().chars().count();
            if term.visible_cursor() > count {
                return Some((
                    "C20:cursor-outside-line".into(),
                    format!("after key #{i} ({k:?}) the cursor is at {} but the line {:?} has {count} characters", term.visible_cursor(), term.current()),
                ));
            }
            match (submitted, want) {
                (true, Some(text)) => {
                    if term.buffer() != text {
                        return Some((
                            "C20:wrong-submitted-text".into(),
                            format!("Enter (key #{i}) submits {:?}, a plain editor holds {text:?}", term.buffer()),
                        ));
                    }
                    term.end_line();
                    model.end_line();
                    term.begin_line();
                    model.begin_line();
                }
                (false, None) => {}
                (true, None) => {
                    return Some(("C20:blank-line-submitted".into(), format!("Enter (key #{i}) submitted {:?} although the line is blank", term.buffer())));
                }
                (false, Some(text)) => {
                    return Some(("C20:line-not-submitted".into(), format!("Enter (key #{i}) did not submit; a plain editor submits {text:?}")));
                }
            }
        }
        None
    });
    match stop {
        Stop::Returned => res.flatten(),
        Stop::Panic(msg, loc) => Some((format!("C20:{}", super::c01::panic_sig(&msg, &loc)), format!("the editor panicked: {msg} at {loc}"))),
        other => Some(("C20:unexpected-stop".into(), format!("{other:?}"))),
    }
}

pub fn judge_case(c: &Case) -> Obs {
    let mut obs = Obs::default();
    obs.key = hash_of(&(&c.history, &c.keys));
    obs.show = Some(format!("history {:?}; keys: {}", c.history, show(&c.keys)));
    // non-trivial: a multi-byte character is in the line while a motion/deletion key is pressed,
    // or a history entry is edited
    let mut model = Edit::new(c.history.clone());
    model.begin_line();
    for k in &c.keys {
        let multibyte = model.current().iter().any(|ch| ch.len_utf8() > 1);
        let editing_history = model.idx < model.hist.len() && matches!(k, K::Ch(_) | K::Bs | K::Del);
        if (multibyte && matches!(k, K::Bs | K::Del | K::Left | K::Right | K::CLeft | K::CRight)) || editing_history {
            obs.nontrivial = true;
        }
        if model.key(*k).is_some() {
            model.end_line();
            model.begin_line();
        }
    }
    for probe in [false, true] {
        if let Some((sig, msg)) = run_keys(&c.history, &c.keys, probe) {
            obs.set_fail(sig, format!("{msg}\nhistory {:?}; keys: {}{}", c.history, show(&c.keys), if probe { " 'Q' Enter" } else { " Enter" }));
            break;
        }
    }
    obs
}

fn histories() -> Vec<Vec<String>> {
    vec![vec![], vec!["step into 3".to_string(), "é😀 x+y".to_string(), "print  r0;a".to_string()]]
}

fn enumerate(ctx: &Ctx, rep: &mut Report, max: usize) {
    let mut n = 0u64;
    let mut keys: Vec<K> = Vec::new();
    // iterative odometer over all sequences of length 1..=max
    for len in 1..=max {
        let total = 17usize.pow(len as u32);
        for code in 0..total {
            n += 1;
            if !ctx.mine(n) {
                continue;
            }
            keys.clear();
            let mut c = code;
            for _ in 0..len {
                keys.push(KEYS[c % 17]);
                c /= 17;
            }
            for h in histories() {
                let case = Case { history: h, keys: keys.clone() };
                judge_one(ctx, rep, &case, &mut |c| {
                    let mut o = judge_case(c);
                    o.label("enumerated");
                    o
                });
            }
            if n % 4096 == 0 {
                lacebox::trim_streams();
            }
        }
    }
    rep.exhaustive.push(format!("key sequences: all sequences of length <= {max} over the 17-key alphabet, from an empty and from a 3-entry history, each also followed by the probe 'Q' Enter"));
}

/// Characters of the classes the word motions distinguish, beyond ASCII: white space (no-break,
/// em, ideographic, Ogham, line separator), letters and digits (Arabic-Indic digit, full-width
/// letter, Roman numeral, superscript), marks and format characters.
pub const CLASS_CHARS: [char; 13] = ['\u{a0}', '\u{2003}', '\u{3000}', '\u{1680}', '\u{2028}', '٣', 'Ａ', 'Ⅷ', '²', '\u{200b}', '\u{301}', '\u{feff}', '·'];

/// Short sequences over a second alphabet: two non-ASCII blanks, a non-ASCII digit, punctuation, a
/// letter, a plain blank and the motion / deletion keys.
fn enumerate_classes(ctx: &Ctx, rep: &mut Report, max: usize) {
    let keys2 = [K::Ch('\u{a0}'), K::Ch('\u{3000}'), K::Ch('٣'), K::Ch('+'), K::Ch('a'), K::Ch(' '), K::CLeft, K::CRight, K::Left, K::Bs, K::Del];
    let mut n = 0u64;
    for len in 1..=max {
        let total = keys2.len().pow(len as u32);
        for code in 0..total {
            n += 1;
            if !ctx.mine(n) {
                continue;
            }
            let mut c = code;
            let mut keys = Vec::new();
            for _ in 0..len {
                keys.push(keys2[c % keys2.len()]);
                c /= keys2.len();
            }
            let case = Case { history: vec![], keys };
            judge_one(ctx, rep, &case, &mut |c| {
                let mut o = judge_case(c);
                o.label("enumerated-character-classes");
                o
            });
            if n % 4096 == 0 {
                lacebox::trim_streams();
            }
        }
    }
    rep.exhaustive.push(format!("key sequences: all sequences of length <= {max} over {{U+00A0, U+3000, Arabic-Indic 3, +, a, space, Ctrl+Left, Ctrl+Right, Left, Backspace, Delete}}"));
}

fn random_cases() -> impl Strategy<Value = Case> {
    let key = crate::pick![
        10 => prop::sample::select(KEYS.to_vec()),
        2 => prop::sample::select(CLASS_CHARS.to_vec()).prop_map(K::Ch),
        // (C1 control characters are neither printable nor keys: what the editor does with them is not specified)
        1 => any::<char>().prop_map(|c| K::Ch(if ('\u{80}'..='\u{9f}').contains(&c) { '·' } else { c })),
        2 => prop::sample::select(vec![K::Ch('ß'), K::Ch('日'), K::Ch('\u{301}'), K::Ch('.'), K::Ch('_'), K::Ch('\t'), K::Ch('\u{7f}'), K::Ch('\u{1b}'), K::Ch('"')]),
        3 => prop::sample::select(vec![K::CLeft, K::CRight, K::Up, K::Down, K::Bs, K::Del]),
    ];
    let hist = prop::collection::vec("[a-z é😀+;]{0,8}", 0..5);
    (hist, prop::collection::vec(key, 5..60)).prop_map(|(history, keys)| Case { history, keys })
}

impl Prop for C20 {
    fn id(&self) -> &'static str {
        "C20"
    }
    fn rule(&self) -> &'static str {
        "ALL key sequences of length <= 4 (quick) / <= 5 (thorough) over {a, Z, 7, space, +, ;, é (2 bytes), 😀 (4 bytes), Backspace, Delete, Left, Right, Ctrl+Left, Ctrl+Right, Up, Down, Enter}, from an empty history and from a 3-entry history (ASCII, multi-byte, punctuation), each run twice: followed by Enter, and followed by the probe 'Q' Enter (which makes the cursor position visible in the submitted text); plus ALL sequences of length <= 4 / <= 5 over {U+00A0, U+3000, Arabic-Indic digit, +, a, space, Ctrl+Left, Ctrl+Right, Left, Backspace, Delete}; plus random sequences of 5-59 keys (more characters: non-ASCII white space, digits, letters, marks and format characters, arbitrary code points, control characters; generated histories). \
         Oracle RefEdit (Vec<char> line, cursor in characters, Vim w/b word motions in characters, history list and index): after every key no panic and 0 <= cursor <= characters of the edited line; whenever Enter submits, the submitted text equals the reference editor's, and blank lines are not submitted; multi-line sessions continue through the history push. \
         Non-trivial: the line holds a multi-byte character while a motion or deletion key is pressed, or a history entry is edited. Distinct = hash(history, keys)."
    }
    fn assumptions(&self) -> Vec<String> {
        vec![
            "hook H5 drives Terminal::handle_key directly and mirrors the few lines of read_line around it (clear before, history push after); terminal rendering, raw mode and the history file are not covered".into(),
            "RefEdit's Ctrl+Left/Right are Vim's b/w as the doc comments of the word-motion helpers describe (whitespace, alphanumeric and punctuation classes), counted in characters".into(),
        ]
    }
    fn profiles(&self, tier: Tier) -> Vec<&'static str> {
        match tier {
            Tier::Quick => vec!["A"],
            Tier::Thorough => vec!["A", "B"],
        }
    }
    fn run_worker(&self, ctx: &Ctx, rep: &mut Report) {
        enumerate(ctx, rep, ctx.tier.pick(4, 5));
        enumerate_classes(ctx, rep, ctx.tier.pick(4, 5));
        let n = ctx.share(ctx.tier.pick(30_000, 400_000));
        drive(ctx, rep, "random-keys", random_cases(), n, &mut |c: &Case| {
            let mut o = judge_case(c);
            o.label("random");
            o
        });
    }
    fn fuzz_strategy(&self) -> Option<BoxedStrategy<Value>> {
        Some(crate::fuzzmode::jv(random_cases()))
    }
    fn replay(&self, _ctx: &Ctx, case: &Value) -> Obs {
        match serde_json::from_value::<Case>(case.clone()) {
            Ok(c) => judge_case(&c),
            Err(e) => Obs::fail("C20:bad-replay-file", format!("cannot parse case: {e}")),
        }
    }
}
