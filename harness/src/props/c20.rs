//! C20 — The interactive line editor keeps its cursor inside the line.
//! Stateful, model-based, with exhaustive bounded enumeration of key sequences (hook H5).

use proptest::prelude::*;
use serde::{Deserialize, Serialize};
use serde_json::Value;

use lace::debugger::verif_term::{VerifKey, VerifTerminal};

use crate::engine::*;
use crate::lacebox::{self, Stop};
use crate::refedit::{Edit, K};

pub struct C20;

pub const KEYS: [K; 17] = [
    K::Ch('a'),
    K::Ch('Z'),
    K::Ch('7'),
    K::Ch(' '),
    K::Ch('+'),
    K::Ch(';'),
    K::Ch('é'),
    K::Ch('😀'),
    K::Bs,
    K::Del,
    K::Left,
    K::Right,
    K::CLeft,
    K::CRight,
    K::Up,
    K::Down,
    K::Enter,
];

#[derive(Clone, Debug, Serialize, Deserialize)]
pub struct Case {
    pub history: Vec<String>,
    pub keys: Vec<K>,
    /// drive the real binary on a pseudo-terminal (`lace debug` with a throw-away history file)
    /// instead of the editor's key handler through hook H5
    #[serde(default)]
    pub tty: bool,
    /// the history holds this many further entries (`#0`, `#1`, ...) before `history`: a list that
    /// has grown (past a power of two, a round number, 2^16) before the session begins
    #[serde(default)]
    pub grow: u32,
}

/// Sizes a history list may have grown to: around powers of two, round numbers and 2^16.
pub const GROWN: &[u32] = &[255, 256, 257, 999, 1000, 1001, 1023, 1024, 1025, 4095, 4096, 4097, 9999, 10_000, 10_001, 65_535, 65_536, 65_537];

fn full_history(c: &Case) -> Vec<String> {
    (0..c.grow).map(|i| format!("#{i}")).chain(c.history.iter().cloned()).collect()
}

fn show_history(c: &Case) -> String {
    let h: Vec<String> = c.history.iter().map(|h| if h.len() > 60 { format!("<{} characters>", h.chars().count()) } else { format!("{h:?}") }).collect();
    if c.grow > 0 {
        format!("[\"#0\", ..., \"#{}\", {}]", c.grow - 1, h.join(", "))
    } else {
        format!("[{}]", h.join(", "))
    }
}

fn to_lace(k: K) -> VerifKey {
    match k {
        K::Ch(c) => VerifKey::Char(c),
        K::Bs => VerifKey::Backspace,
        K::Del => VerifKey::Delete,
        K::Left => VerifKey::Left,
        K::Right => VerifKey::Right,
        K::CLeft => VerifKey::CtrlLeft,
        K::CRight => VerifKey::CtrlRight,
        K::Up => VerifKey::Up,
        K::Down => VerifKey::Down,
        K::Enter => VerifKey::Enter,
    }
}

fn show(keys: &[K]) -> String {
    keys.iter()
        .map(|k| match k {
            K::Ch(' ') => "Space".to_string(),
            K::Ch(c) => format!("'{c}'"),
            other => format!("{other:?}"),
        })
        .collect::<Vec<_>>()
        .join(" ")
}

/// Feed the keys to lace's editor and to RefEdit. `probe`: after the sequence, type 'Q' and press
/// Enter so that the cursor position and the buffer become visible in the submitted text.
fn run_keys(history: &[String], keys: &[K], probe: bool) -> Option<(String, String)> {
    let mut all: Vec<K> = keys.to_vec();
    if probe {
        all.push(K::Ch('Q'));
    }
    all.push(K::Enter);
    let hist = history.to_vec();
    let (res, stop) = lacebox::guarded(move || -> Option<(String, String)> {
        let mut term = VerifTerminal::new(hist.clone());
        let mut model = Edit::new(hist);
        term.begin_line();
        model.begin_line();
        for (i, k) in all.iter().enumerate() {
            let submitted = term.handle_key(to_lace(*k));
            let want = model.key(*k);
            let count = term.current().chars().count();
            if term.visible_cursor() > count {
                return Some((
                    "C20:cursor-outside-line".into(),
                    format!("after key #{i} ({k:?}) the cursor is at {} but the line {:?} has {count} characters", term.visible_cursor(), term.current()),
                ));
            }
            match (submitted, want) {
                (true, Some(text)) => {
                    if term.buffer() != text {
                        return Some((
                            "C20:wrong-submitted-text".into(),
                            format!("Enter (key #{i}) submits {:?}, a plain editor holds {text:?}", term.buffer()),
                        ));
                    }
                    term.end_line();
                    model.end_line();
                    term.begin_line();
                    model.begin_line();
                }
                (false, None) => {}
                (true, None) => {
                    return Some(("C20:blank-line-submitted".into(), format!("Enter (key #{i}) submitted {:?} although the line is blank", term.buffer())));
                }
                (false, Some(text)) => {
                    return Some(("C20:line-not-submitted".into(), format!("Enter (key #{i}) did not submit; a plain editor submits {text:?}")));
                }
            }
        }
        None
    });
    match stop {
        Stop::Returned => res.flatten(),
        Stop::Panic(msg, loc) => Some((format!("C20:{}", super::c01::panic_sig(&msg, &loc)), format!("the editor panicked: {msg} at {loc}"))),
        other => Some(("C20:unexpected-stop".into(), format!("{other:?}"))),
    }
}

/// Bytes a terminal sends for a key (xterm).
fn key_bytes(k: K) -> Vec<u8> {
    match k {
        K::Ch(c) => c.to_string().into_bytes(),
        K::Bs => vec![0x7f],
        K::Del => b"\x1b[3~".to_vec(),
        K::Left => b"\x1b[D".to_vec(),
        K::Right => b"\x1b[C".to_vec(),
        K::Up => b"\x1b[A".to_vec(),
        K::Down => b"\x1b[B".to_vec(),
        K::CLeft => b"\x1b[1;5D".to_vec(),
        K::CRight => b"\x1b[1;5C".to_vec(),
        K::Enter => vec![b'\r'],
    }
}

/// The whole interactive path: `lace debug` on a pseudo-terminal with a throw-away history file,
/// the keys typed as the byte sequences a terminal sends. Every submitted line is appended to
/// the history file (unless it repeats the previous one), so after the session the file must hold
/// exactly the history RefEdit ends with. The keys are restricted (by the generator) to characters
/// that cannot spell a command, so that no submitted line resumes or ends the session; the session
/// is ended by typing `exit`.
fn judge_tty(c: &Case) -> Obs {
    use crate::cli::{self, TempDir};
    let mut obs = Obs::default();
    obs.key = hash_of(&("tty", &c.history, &c.keys, c.grow));
    let history = full_history(c);
    if c.grow > 0 {
        obs.label("history-of-hundreds-or-thousands-of-entries");
    }
    obs.label("real-terminal");
    let harmless = |ch: char| !ch.is_control() && !ch.is_ascii_alphabetic() && ch != '^' && ch != ':' && ch != '-';
    if c.keys.iter().any(|k| matches!(k, K::Ch(ch) if !harmless(*ch))) || c.history.iter().any(|h| h.chars().any(|ch| !harmless(ch)) || h.contains('\n')) {
        obs.excluded = Some("keys or history could spell a command");
        return obs;
    }
    let mut all: Vec<K> = c.keys.clone();
    all.push(K::Enter);
    all.extend("exit".chars().map(K::Ch));
    all.push(K::Enter);
    obs.show = Some(format!("on a pseudo-terminal; history {}; keys: {}", show_history(c), show(&all)));
    // reference
    let mut model = Edit::new(history.clone());
    model.begin_line();
    for k in &all {
        let multibyte = model.current().iter().any(|ch| ch.len_utf8() > 1);
        if multibyte && matches!(k, K::Bs | K::Del | K::Left | K::Right | K::CLeft | K::CRight) || (model.idx < model.hist.len() && matches!(k, K::Ch(_) | K::Bs | K::Del)) {
            obs.nontrivial = true;
        }
        if model.key(*k).is_some() {
            model.end_line();
            model.begin_line();
        }
    }
    let want: Vec<String> = model.hist.clone();
    if want.last().map(|s| s.as_str()) != Some("exit") {
        obs.excluded = Some("the reference session does not end with the typed `exit`");
        return obs;
    }
    if c.history.iter().any(|h| h.chars().count() > 60_000) {
        obs.label("history-entry-longer-than-60000-characters");
    }
    let dir = TempDir::new();
    dir.write("p.asm", b"start add r0 r0 #1\nhalt\n");
    let cache = dir.path().join("cache");
    std::fs::create_dir_all(&cache).unwrap();
    let mut file = String::new();
    for h in &history {
        file.push_str(h);
        file.push('\n');
    }
    std::fs::write(cache.join("lace-debugger-history"), file).unwrap();
    let typed: Vec<Vec<u8>> = all.iter().map(|k| key_bytes(*k)).collect();
    let cache_s = cache.to_string_lossy().to_string();
    let (run, ntyped) = cli::lace_tty_env(&["debug", "p.asm", "--minimal"], dir.path(), &typed, false, 60, &[("XDG_CACHE_HOME", cache_s.as_str()), ("HOME", cache_s.as_str())]);
    if run.timed_out {
        let err = String::from_utf8_lossy(&run.stderr).to_string();
        let tail: String = err.chars().rev().take(300).collect::<String>().chars().rev().collect();
        crate::lacebox::log(&format!("C20 real-terminal: watchdog after {ntyped} of {} keys; {}; stderr tail {tail:?}", typed.len(), obs.show.clone().unwrap_or_default()));
        obs.excluded = Some("watchdog");
        return obs;
    }
    if run.panicked() {
        let err = String::from_utf8_lossy(&run.stderr).to_string();
        let sig = match err.find("panicked at ") {
            Some(i) => {
                let rest = &err[i + "panicked at ".len()..];
                let loc_full = rest.lines().next().unwrap_or("").trim_end_matches(':');
                let loc = loc_full.rsplitn(2, ':').nth(1).unwrap_or(loc_full);
                format!("C20:{}", super::c01::panic_sig(rest.lines().nth(1).unwrap_or("").trim(), loc))
            }
            None => "C20:terminal-session-crashes".to_string(),
        };
        let tail: String = err.chars().rev().take(600).collect::<String>().chars().rev().collect();
        obs.set_fail(sig, format!("the debugger crashed on the terminal after {ntyped} of {} keys: exit {:?} signal {:?}\n...{tail}", typed.len(), run.code, run.signal));
        return obs;
    }
    let got: Vec<String> = std::fs::read_to_string(cache.join("lace-debugger-history")).unwrap_or_default().lines().map(|l| l.to_string()).collect();
    if got != want {
        let at = got.iter().zip(&want).position(|(a, b)| a != b).unwrap_or(got.len().min(want.len()));
        let clipv = |v: Option<&String>| v.map(|s| if s.chars().count() > 120 { format!("<{} characters, first difference at character {:?}>", s.chars().count(), want.get(at).and_then(|w| s.chars().zip(w.chars()).position(|(a, b)| a != b))) } else { format!("{s:?}") }).unwrap_or_else(|| "<nothing>".into());
        obs.set_fail(
            "C20:terminal-submitted-lines-differ",
            format!("after the session the history file has {} lines, the reference editor {}; entry #{at}: got {}, reference {}\n{} of {} keys were typed; exit {:?}", got.len(), want.len(), clipv(got.get(at)), clipv(want.get(at)), ntyped, typed.len(), run.code),
        );
    }
    obs
}

pub fn judge_case(c: &Case) -> Obs {
    if c.tty {
        return judge_tty(c);
    }
    let mut obs = Obs::default();
    obs.key = hash_of(&(&c.history, &c.keys, c.grow));
    obs.show = Some(format!("history {}; keys: {}", show_history(c), show(&c.keys)));
    let history = full_history(c);
    if c.grow > 0 {
        obs.label("history-of-hundreds-or-thousands-of-entries");
    }
    // non-trivial: a multi-byte character is in the line while a motion/deletion key is pressed,
    // or a history entry is edited
    let mut model = Edit::new(history.clone());
    model.begin_line();
    for k in &c.keys {
        let multibyte = model.current().iter().any(|ch| ch.len_utf8() > 1);
        let editing_history = model.idx < model.hist.len() && matches!(k, K::Ch(_) | K::Bs | K::Del);
        if (multibyte && matches!(k, K::Bs | K::Del | K::Left | K::Right | K::CLeft | K::CRight)) || editing_history {
            obs.nontrivial = true;
        }
        if model.key(*k).is_some() {
            model.end_line();
            model.begin_line();
        }
    }
    for probe in [false, true] {
        if let Some((sig, msg)) = run_keys(&history, &c.keys, probe) {
            obs.set_fail(sig, format!("{msg}\nhistory {}; keys: {}{}", show_history(c), show(&c.keys), if probe { " 'Q' Enter" } else { " Enter" }));
            break;
        }
    }
    obs
}

fn histories() -> Vec<Vec<String>> {
    vec![vec![], vec!["step into 3".to_string(), "é😀 x+y".to_string(), "print  r0;a".to_string()]]
}

fn enumerate(ctx: &Ctx, rep: &mut Report, max: usize) {
    let mut n = 0u64;
    let mut keys: Vec<K> = Vec::new();
    // iterative odometer over all sequences of length 1..=max
    for len in 1..=max {
        let total = 17usize.pow(len as u32);
        for code in 0..total {
            n += 1;
            if !ctx.mine(n) {
                continue;
            }
            keys.clear();
            let mut c = code;
            for _ in 0..len {
                keys.push(KEYS[c % 17]);
                c /= 17;
            }
            for h in histories() {
                let case = Case { history: h, keys: keys.clone(), tty: false, grow: 0 };
                judge_one(ctx, rep, &case, &mut |c| {
                    let mut o = judge_case(c);
                    o.label("enumerated");
                    o
                });
            }
            if n % 4096 == 0 {
                lacebox::trim_streams();
            }
        }
    }
    rep.exhaustive.push(format!("key sequences: all sequences of length <= {max} over the 17-key alphabet, from an empty and from a 3-entry history, each also followed by the probe 'Q' Enter"));
}

/// Characters of the classes the word motions distinguish, beyond ASCII: white space (no-break,
/// em, ideographic, Ogham, line separator), letters and digits (Arabic-Indic digit, full-width
/// letter, Roman numeral, superscript), marks and format characters.
pub const CLASS_CHARS: [char; 13] = ['\u{a0}', '\u{2003}', '\u{3000}', '\u{1680}', '\u{2028}', '٣', 'Ａ', 'Ⅷ', '²', '\u{200b}', '\u{301}', '\u{feff}', '·'];

/// Short sequences over a second alphabet: two non-ASCII blanks, a non-ASCII digit, punctuation, a
/// letter, a plain blank and the motion / deletion keys.
fn enumerate_classes(ctx: &Ctx, rep: &mut Report, max: usize) {
    let keys2 = [K::Ch('\u{a0}'), K::Ch('\u{3000}'), K::Ch('٣'), K::Ch('+'), K::Ch('a'), K::Ch(' '), K::CLeft, K::CRight, K::Left, K::Bs, K::Del];
    let mut n = 0u64;
    for len in 1..=max {
        let total = keys2.len().pow(len as u32);
        for code in 0..total {
            n += 1;
            if !ctx.mine(n) {
                continue;
            }
            let mut c = code;
            let mut keys = Vec::new();
            for _ in 0..len {
                keys.push(keys2[c % keys2.len()]);
                c /= keys2.len();
            }
            let case = Case { history: vec![], keys, tty: false, grow: 0 };
            judge_one(ctx, rep, &case, &mut |c| {
                let mut o = judge_case(c);
                o.label("enumerated-character-classes");
                o
            });
            if n % 4096 == 0 {
                lacebox::trim_streams();
            }
        }
    }
    rep.exhaustive.push(format!("key sequences: all sequences of length <= {max} over {{U+00A0, U+3000, Arabic-Indic 3, +, a, space, Ctrl+Left, Ctrl+Right, Left, Backspace, Delete}}"));
}

fn random_cases() -> impl Strategy<Value = Case> {
    let key = crate::pick![
        10 => prop::sample::select(KEYS.to_vec()),
        2 => prop::sample::select(CLASS_CHARS.to_vec()).prop_map(K::Ch),
        // (C1 control characters are neither printable nor keys: what the editor does with them is not specified)
        1 => any::<char>().prop_map(|c| K::Ch(if ('\u{80}'..='\u{9f}').contains(&c) { '·' } else { c })),
        2 => prop::sample::select(vec![K::Ch('ß'), K::Ch('日'), K::Ch('\u{301}'), K::Ch('.'), K::Ch('_'), K::Ch('\t'), K::Ch('\u{7f}'), K::Ch('\u{1b}'), K::Ch('"')]),
        3 => prop::sample::select(vec![K::CLeft, K::CRight, K::Up, K::Down, K::Bs, K::Del]),
    ];
    let hist = prop::collection::vec("[a-z é😀+;]{0,8}", 0..5);
    // (an eighth of the sessions start from a history that has grown; the two largest sizes rarely)
    let grow = crate::pick![14 => Just(0u32), 2 => (0usize..GROWN.len() - 3).prop_map(|i| GROWN[i]), 1 => (0usize..GROWN.len()).prop_map(|i| GROWN[i])];
    // in those, lines are entered and recalled more often
    (hist, prop::collection::vec(key, 5..60), grow, prop::collection::vec(crate::pick![2 => Just(K::Enter), 2 => Just(K::Up), 1 => Just(K::Down), 2 => Just(K::Ch('k'))], 4..12)).prop_map(|(history, mut keys, grow, more)| {
        if grow > 0 {
            keys.truncate(20);
            keys.extend(more);
        }
        Case { history, keys, tty: false, grow }
    })
}

/// Sessions for the real terminal: characters that cannot spell a command, all motion keys,
/// histories of harmless lines, and (1 in 13) one history entry of 65,000 .. 70,000 characters.
fn tty_cases() -> impl Strategy<Value = Case> {
    let ch = || prop::sample::select(vec!['7', '0', '+', ' ', ';', '.', 'é', '😀', '日', '\u{a0}', '٣', '\u{3000}', '=', '#']);
    let key = crate::pick![
        8 => ch().prop_map(K::Ch),
        6 => prop::sample::select(vec![K::Bs, K::Del, K::Left, K::Right, K::CLeft, K::CRight, K::Up, K::Down, K::Left, K::CLeft]),
        2 => Just(K::Enter),
    ];
    let short = (prop::collection::vec("[0-9 +;.é😀=#]{1,12}".prop_map(|s| s), 0..4), prop::collection::vec(key, 3..40));
    // one history entry of 65,000 .. 70,000 characters (two thirds of them within 15 of 65,535, where 16-bit column arithmetic ends), recalled and edited (no word motions: lace's
    // are quadratic in the line length, which is slow, not wrong)
    let key_long = crate::pick![
        4 => ch().prop_map(K::Ch),
        4 => prop::sample::select(vec![K::Bs, K::Del, K::Left, K::Right, K::Up, K::Down, K::Up]),
        1 => Just(K::Enter),
    ];
    let long = (
        (crate::pick![1 => 65_000usize..70_000, 2 => 65_520usize..65_540], prop::sample::select(vec!['8', 'é', '+'])).prop_map(|(n, c)| vec![std::iter::repeat(c).take(n).collect::<String>()]),
        prop::collection::vec(key_long, 2..9).prop_map(|mut keys| {
            keys.insert(0, K::Up);
            keys
        }),
    );
    crate::pick![12 => short.boxed(), 1 => long.boxed()].prop_map(|(history, keys)| {
        // (blank entries are never written by the editor itself)
        let history: Vec<String> = history.into_iter().filter(|h| !h.trim().is_empty()).collect();
        // a tenth of the short sessions start from a history file of hundreds or thousands of lines
        let sel = hash_of(&(&history, &keys));
        let grow = if sel % 10 == 0 && history.iter().all(|h| h.len() < 100) { GROWN[(sel / 10 % (GROWN.len() as u64 - 6)) as usize] } else { 0 };
        Case { history, keys, tty: true, grow }
    })
}

impl Prop for C20 {
    fn id(&self) -> &'static str {
        "C20"
    }
    fn rule(&self) -> &'static str {
        "ALL key sequences of length <= 4 (quick) / <= 5 (thorough) over {a, Z, 7, space, +, ;, é (2 bytes), 😀 (4 bytes), Backspace, Delete, Left, Right, Ctrl+Left, Ctrl+Right, Up, Down, Enter}, from an empty history and from a 3-entry history (ASCII, multi-byte, punctuation), each run twice: followed by Enter, and followed by the probe 'Q' Enter (which makes the cursor position visible in the submitted text); plus ALL sequences of length <= 4 / <= 5 over {U+00A0, U+3000, Arabic-Indic digit, +, a, space, Ctrl+Left, Ctrl+Right, Left, Backspace, Delete}; plus random sequences of 5-59 keys (more characters: non-ASCII white space, digits, letters, marks and format characters, arbitrary code points, control characters; generated histories; an eighth of them start from a history that has grown to 255..65,537 entries - around powers of two, round numbers and 2^16 - and enter and recall lines more often). \
         Oracle RefEdit (Vec<char> line, cursor in characters, Vim w/b word motions in characters, history list and index): after every key no panic and 0 <= cursor <= characters of the edited line; whenever Enter submits, the submitted text equals the reference editor's, and blank lines are not submitted; multi-line sessions continue through the history push. \
         Plus the whole interactive path: `lace debug` on a pseudo-terminal with a throw-away history file (0-3 entries, rarely one of 65,000-70,000 characters, a tenth of them preceded by 255..10,001 further lines), 3-39 keys typed as the byte sequences a terminal sends (characters that cannot spell a command, all motion / deletion / history keys, Enter), ended by typing `exit`: the history file must end up holding exactly the lines RefEdit submits, and the process must not crash. Non-trivial: the line holds a multi-byte character while a motion or deletion key is pressed, or a history entry is edited. Distinct = hash(history, keys)."
    }
    fn assumptions(&self) -> Vec<String> {
        vec![
            "hook H5 drives Terminal::handle_key directly and mirrors the few lines of read_line around it (clear before, history push after); the real-terminal stream covers raw mode, prompt redrawing and the history file through the submitted lines only (what is drawn is not compared)".into(),
            "RefEdit's Ctrl+Left/Right are Vim's b/w as the doc comments of the word-motion helpers describe (whitespace, alphanumeric and punctuation classes), counted in characters".into(),
        ]
    }
    fn profiles(&self, tier: Tier) -> Vec<&'static str> {
        match tier {
            Tier::Quick => vec!["A"],
            Tier::Thorough => vec!["A", "B"],
        }
    }
    fn needs_cli(&self) -> bool {
        true
    }
    fn run_worker(&self, ctx: &Ctx, rep: &mut Report) {
        enumerate(ctx, rep, ctx.tier.pick(4, 5));
        enumerate_classes(ctx, rep, ctx.tier.pick(4, 5));
        let n = ctx.share(ctx.tier.pick(30_000, 400_000));
        drive(ctx, rep, "random-keys", random_cases(), n, &mut |c: &Case| {
            let mut o = judge_case(c);
            o.label("random");
            o
        });
        // the whole interactive path through the real binary on a pseudo-terminal
        std::env::set_var("VERIF_MAX_SHRINK", "40");
        let n = ctx.share(ctx.tier.pick(2000, 30_000));
        drive(ctx, rep, "real-terminal", tty_cases(), n, &mut |c: &Case| judge_case(c));
        std::env::remove_var("VERIF_MAX_SHRINK");
    }
    fn fuzz_strategy(&self) -> Option<BoxedStrategy<Value>> {
        Some(crate::fuzzmode::jv(random_cases()))
    }
    fn replay(&self, _ctx: &Ctx, case: &Value) -> Obs {
        match serde_json::from_value::<Case>(case.clone()) {
            Ok(c) => judge_case(&c),
            Err(e) => Obs::fail("C20:bad-replay-file", format!("cannot parse case: {e}")),
        }
    }
}
