use crate::engine::Prop;

pub mod c01;

pub fn all() -> Vec<&'static dyn Prop> {
    vec![&c01::C01]
}
