use crate::engine::Prop;

pub mod c01;
pub mod c04;
pub mod c05;

pub fn all() -> Vec<&'static dyn Prop> {
    vec![&c01::C01, &c04::C04, &c05::C05]
}
