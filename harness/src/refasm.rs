//! RefAsm: program AST (operands carry value *and* spelling), layout-parameterised renderer,
//! ISA encoder and acceptance rules. Written from the LC-3 ISA bit layouts, README.md and the
//! statement of C01/C04 — not from lace's lexer/parser. The oracle is always computed from the
//! AST, never by re-lexing rendered text.

use serde::{Deserialize, Serialize};

// ---------------------------------------------------------------------------------------------
// Literals

#[derive(Clone, Debug, Serialize, Deserialize, PartialEq, Eq, Hash)]
pub enum Lit {
    /// `#d` / `#-d`, value in [-32768, 65535]
    Dec(i32),
    /// `xH`, `XH`, `0xH`, `0XH`; value in [0, 0xFFFF]; fmt bits: 1 = upper-case X, 2 = leading 0,
    /// 4 = upper-case digits, 8 = zero-padded to 4 digits
    Hex(u16, u8),
    /// `x-H` / `0x-H`: value -(mag), mag in [1, 0x8000]; fmt as above
    NegHex(u16, u8),
}

impl Lit {
    pub fn text(&self) -> String {
        fn hex(pre: u8, neg: bool, v: u32) -> String {
            let x = if pre & 1 != 0 { "X" } else { "x" };
            let z = if pre & 2 != 0 { "0" } else { "" };
            let digits = if pre & 8 != 0 { format!("{v:04x}") } else { format!("{v:x}") };
            let digits = if pre & 4 != 0 { digits.to_uppercase() } else { digits };
            format!("{z}{x}{}{digits}", if neg { "-" } else { "" })
        }
        match self {
            Lit::Dec(d) => format!("#{d}"),
            Lit::Hex(v, f) => hex(*f, false, *v as u32),
            Lit::NegHex(m, f) => hex(*f, true, *m as u32),
        }
    }
    /// The 16-bit word the literal denotes.
    pub fn word(&self) -> u16 {
        match self {
            Lit::Dec(d) => *d as u16,
            Lit::Hex(v, _) => *v,
            Lit::NegHex(m, _) => (*m as i32).wrapping_neg() as u16,
        }
    }
    /// Mathematical value as written.
    pub fn written(&self) -> i32 {
        match self {
            Lit::Dec(d) => *d,
            Lit::Hex(v, _) => *v as i32,
            Lit::NegHex(m, _) => -(*m as i32),
        }
    }
    /// Readings of the literal as a signed quantity: the value as written, and (for spellings
    /// that denote a 16-bit pattern with the top bit set) its two's-complement value.
    pub fn signed_readings(&self) -> (i32, i32) {
        let w = self.written();
        let tc = self.word() as i16 as i32;
        (w, tc)
    }
    pub fn is_negative_spelling(&self) -> bool {
        self.written() < 0
    }
}

// ---------------------------------------------------------------------------------------------
// Statements

#[derive(Clone, Copy, Debug, Serialize, Deserialize, PartialEq, Eq, Hash)]
pub enum Op {
    Add,
    And,
    Not,
    /// nzp bits (1..=7); `true` = spelled with explicit flags when 7 (`brnzp`), else `br`
    Br(u8, bool),
    Jmp,
    Ret,
    Jsr,
    Jsrr,
    Ld,
    Ldi,
    Lea,
    St,
    Sti,
    Ldr,
    Str,
    Rti,
    Trap,
    Getc,
    Out,
    Puts,
    In,
    Putsp,
    Halt,
    Putn,
    Reg,
    Push,
    Pop,
    Call,
    Rets,
    Fill,
    Blkw,
    Stringz,
}

impl Op {
    pub fn mnemonic(&self) -> String {
        match self {
            Op::Add => "add".into(),
            Op::And => "and".into(),
            Op::Not => "not".into(),
            Op::Br(f, explicit) => {
                if *f == 7 && !explicit {
                    "br".into()
                } else {
                    let mut s = String::from("br");
                    if f & 4 != 0 {
                        s.push('n');
                    }
                    if f & 2 != 0 {
                        s.push('z');
                    }
                    if f & 1 != 0 {
                        s.push('p');
                    }
                    s
                }
            }
            Op::Jmp => "jmp".into(),
            Op::Ret => "ret".into(),
            Op::Jsr => "jsr".into(),
            Op::Jsrr => "jsrr".into(),
            Op::Ld => "ld".into(),
            Op::Ldi => "ldi".into(),
            Op::Lea => "lea".into(),
            Op::St => "st".into(),
            Op::Sti => "sti".into(),
            Op::Ldr => "ldr".into(),
            Op::Str => "str".into(),
            Op::Rti => "rti".into(),
            Op::Trap => "trap".into(),
            Op::Getc => "getc".into(),
            Op::Out => "out".into(),
            Op::Puts => "puts".into(),
            Op::In => "in".into(),
            Op::Putsp => "putsp".into(),
            Op::Halt => "halt".into(),
            Op::Putn => "putn".into(),
            Op::Reg => "reg".into(),
            Op::Push => "push".into(),
            Op::Pop => "pop".into(),
            Op::Call => "call".into(),
            Op::Rets => "rets".into(),
            Op::Fill => ".fill".into(),
            Op::Blkw => ".blkw".into(),
            Op::Stringz => ".stringz".into(),
        }
    }
    pub fn is_stack(&self) -> bool {
        matches!(self, Op::Push | Op::Pop | Op::Call | Op::Rets)
    }
    /// Number of register operands.
    pub fn nregs(&self) -> usize {
        match self {
            Op::Add | Op::And => 2,
            Op::Not | Op::Ldr | Op::Str => 2,
            Op::Jmp | Op::Jsrr | Op::Ld | Op::Ldi | Op::Lea | Op::St | Op::Sti | Op::Push | Op::Pop => 1,
            _ => 0,
        }
    }
    /// Width of the PC-relative field, if the last operand is one.
    pub fn pcrel_bits(&self) -> Option<u32> {
        match self {
            Op::Br(..) | Op::Ld | Op::Ldi | Op::Lea | Op::St | Op::Sti => Some(9),
            Op::Jsr => Some(11),
            Op::Call => Some(10),
            _ => None,
        }
    }
    pub fn trap_alias(&self) -> Option<u16> {
        Some(match self {
            Op::Getc => 0x20,
            Op::Out => 0x21,
            Op::Puts => 0x22,
            Op::In => 0x23,
            Op::Putsp => 0x24,
            Op::Halt => 0x25,
            Op::Putn => 0x26,
            Op::Reg => 0x27,
            _ => return None,
        })
    }
}

#[derive(Clone, Debug, Serialize, Deserialize, PartialEq, Eq, Hash)]
pub enum Operand {
    None,
    /// third operand of ADD/AND in register form
    Reg(u8),
    Lit(Lit),
    Label(String),
    /// `.stringz`: the characters of the string (unescaped)
    Str(String),
}

#[derive(Clone, Debug, Serialize, Deserialize, PartialEq, Eq, Hash)]
pub struct Stmt {
    pub op: Op,
    pub regs: Vec<u8>,
    pub operand: Operand,
}

impl Stmt {
    pub fn new(op: Op, regs: &[u8], operand: Operand) -> Self {
        Stmt { op, regs: regs.to_vec(), operand }
    }
    pub fn simple(op: Op) -> Self {
        Stmt { op, regs: vec![], operand: Operand::None }
    }
    /// Number of words this statement occupies (None: not computable, e.g. `.blkw` with a
    /// negative count).
    pub fn size(&self) -> Option<usize> {
        match (&self.op, &self.operand) {
            (Op::Blkw, Operand::Lit(l)) => {
                if l.written() < 0 {
                    None
                } else {
                    Some(l.written() as usize)
                }
            }
            (Op::Stringz, Operand::Str(s)) => Some(s.chars().count() + 1),
            _ => Some(1),
        }
    }
}

#[derive(Clone, Debug, Serialize, Deserialize, PartialEq, Eq, Hash)]
pub enum Body {
    Stmt(Stmt),
    /// `.break`
    Break,
    /// `.orig <lit>`
    Orig(Lit),
}

#[derive(Clone, Debug, Serialize, Deserialize, PartialEq, Eq, Hash)]
pub struct Line {
    /// (name, written with a colon)
    pub label: Option<(String, bool)>,
    pub body: Body,
}

impl Line {
    pub fn stmt(label: Option<&str>, s: Stmt) -> Self {
        Line { label: label.map(|l| (l.to_string(), false)), body: Body::Stmt(s) }
    }
}

#[derive(Clone, Debug, Serialize, Deserialize, PartialEq, Eq, Hash, Default)]
pub struct Program {
    pub lines: Vec<Line>,
}

// ---------------------------------------------------------------------------------------------
// Names

pub const KEYWORDS: &[&str] = &[
    "add", "and", "br", "brn", "brz", "brp", "brnz", "brnp", "brzp", "brnzp", "jmp", "jsr", "jsrr",
    "ld", "ldi", "ldr", "lea", "not", "ret", "rti", "st", "sti", "str", "pop", "push", "call",
    "rets", "trap", "getc", "out", "puts", "in", "putsp", "halt", "putn", "reg",
];

/// Is `name` usable as a label in every context (assembler source under both feature settings)?
pub fn label_ok(name: &str) -> bool {
    let mut chars = name.chars();
    let Some(first) = chars.next() else { return false };
    if !(first.is_ascii_alphabetic() || first == '_') {
        return false;
    }
    if !name.chars().all(|c| c.is_ascii_alphanumeric() || c == '_') {
        return false;
    }
    let lower = name.to_ascii_lowercase();
    if KEYWORDS.contains(&lower.as_str()) {
        return false;
    }
    // register spellings
    let b = lower.as_bytes();
    if b.len() == 2 && b[0] == b'r' && (b'0'..=b'7').contains(&b[1]) {
        return false;
    }
    // anything that lexes as a hex literal: x + hex digits (any count)
    if b[0] == b'x' && b.len() > 1 && b[1..].iter().all(|c| c.is_ascii_hexdigit()) {
        return false;
    }
    true
}

// ---------------------------------------------------------------------------------------------
// Encoding and acceptance

#[derive(Clone, Debug, PartialEq, Eq)]
pub struct RefImage {
    pub orig: Option<u16>,
    pub words: Vec<u16>,
    /// word index of each `.break`
    pub breaks: Vec<u16>,
    /// for each word, index of the line (in `Program.lines`) that produced it
    pub word_line: Vec<usize>,
    /// label name -> word index
    pub labels: Vec<(String, usize)>,
}

#[derive(Clone, Debug, PartialEq, Eq)]
pub enum Verdict {
    /// Must be accepted, with exactly this image.
    Accept(RefImage),
    /// Must be rejected with a diagnostic. (class)
    Reject(&'static str),
    /// Two readings of the statement disagree: if accepted, the image must equal this one.
    Either(RefImage, &'static str),
    /// Outside what the statement speaks about: nothing asserted. (reason)
    Unspecified(&'static str),
}

enum Fit {
    Yes(u16),
    No,
    /// the written value does not fit but the two's-complement reading does
    Either(u16),
    Unspec(&'static str),
}

fn fit_signed(l: &Lit, bits: u32) -> Fit {
    let lo = -(1i32 << (bits - 1));
    let hi = (1i32 << (bits - 1)) - 1;
    let mask = ((1u32 << bits) - 1) as u16;
    let (w, tc) = l.signed_readings();
    if let Lit::Dec(d) = l {
        if *d > 32767 {
            return Fit::Unspec("decimal literal above 32767 in a signed field");
        }
    }
    let w_fits = (lo..=hi).contains(&w);
    let tc_fits = (lo..=hi).contains(&tc);
    if w_fits {
        Fit::Yes((w as u16) & mask)
    } else if tc_fits && w != tc {
        Fit::Either((tc as u16) & mask)
    } else {
        Fit::No
    }
}

fn fit_unsigned(l: &Lit, bits: u32) -> Fit {
    let w = l.written();
    if w < 0 {
        return Fit::No;
    }
    if (w as u32) < (1u32 << bits) {
        Fit::Yes(w as u16)
    } else {
        Fit::No
    }
}

/// Judge a program: acceptance per C04 and the image per C01.
pub fn judge(p: &Program, stack: bool) -> Verdict {
    // Pass 1: layout
    let mut labels: Vec<(String, usize)> = Vec::new();
    let mut breaks = Vec::new();
    let mut idx = 0usize;
    let mut orig: Option<u16> = None;
    let mut n_orig = 0;
    let mut either: Option<&'static str> = None;
    let mut pending_label_at_end = false;
    for line in &p.lines {
        if let Some((name, _)) = &line.label {
            if labels.iter().any(|(n, _)| n == name) {
                return Verdict::Reject("duplicate label");
            }
            labels.push((name.clone(), idx));
            pending_label_at_end = true;
        }
        match &line.body {
            Body::Break => {
                breaks.push(idx as u16);
                pending_label_at_end = false;
            }
            Body::Orig(l) => {
                n_orig += 1;
                if n_orig > 1 {
                    return Verdict::Reject("repeated .orig");
                }
                if l.written() < 0 {
                    return Verdict::Unspecified("negative .orig");
                }
                orig = Some(l.word());
                pending_label_at_end = false;
            }
            Body::Stmt(s) => {
                pending_label_at_end = false;
                if s.op.is_stack() && !stack {
                    return Verdict::Reject("stack mnemonic without the feature");
                }
                match s.size() {
                    Some(0) if line.label.is_some() => {
                        return Verdict::Unspecified("label on a zero-word .blkw")
                    }
                    Some(n) => idx += n,
                    None => return Verdict::Unspecified("negative .blkw"),
                }
            }
        }
    }
    if pending_label_at_end {
        return Verdict::Reject("label without a statement");
    }
    if idx > 0xFFFF {
        return Verdict::Unspecified("program longer than the address space");
    }
    // Pass 2: encode
    let mut words = Vec::with_capacity(idx);
    let mut word_line = Vec::with_capacity(idx);
    for (li, line) in p.lines.iter().enumerate() {
        let Body::Stmt(s) = &line.body else { continue };
        let here = words.len();
        let r = |i: usize| -> u16 { (s.regs[i] & 7) as u16 };
        let mut pcrel = |bits: u32, either: &mut Option<&'static str>| -> Result<u16, Verdict> {
            let mask = ((1u32 << bits) - 1) as u16;
            match &s.operand {
                Operand::Label(name) => {
                    let Some((_, target)) = labels.iter().find(|(n, _)| n == name) else {
                        return Err(Verdict::Reject("undefined label"));
                    };
                    let delta = *target as i64 - (here as i64 + 1);
                    let lo = -(1i64 << (bits - 1));
                    let hi = (1i64 << (bits - 1)) - 1;
                    if delta < lo || delta > hi {
                        return Err(Verdict::Reject("label out of reach"));
                    }
                    Ok((delta as u16) & mask)
                }
                Operand::Lit(l) => match fit_signed(l, bits) {
                    Fit::Yes(f) => Ok(f),
                    Fit::No => Err(Verdict::Reject("literal offset out of range")),
                    Fit::Either(f) => {
                        *either = Some("hex literal >= 0x8000 in a signed field");
                        Ok(f)
                    }
                    Fit::Unspec(why) => Err(Verdict::Unspecified(why)),
                },
                _ => Err(Verdict::Reject("operand kind")),
            }
        };
        let word: u16 = match s.op {
            Op::Add | Op::And => {
                let opc = if s.op == Op::Add { 0x1000 } else { 0x5000 };
                let tail = match &s.operand {
                    Operand::Reg(x) => (*x & 7) as u16,
                    Operand::Lit(l) => match fit_signed(l, 5) {
                        Fit::Yes(f) => 0x20 | f,
                        Fit::No => return Verdict::Reject("imm5 out of range"),
                        Fit::Either(f) => {
                            either = Some("hex literal >= 0x8000 in a signed field");
                            0x20 | f
                        }
                        Fit::Unspec(why) => return Verdict::Unspecified(why),
                    },
                    _ => return Verdict::Reject("operand kind"),
                };
                opc | r(0) << 9 | r(1) << 6 | tail
            }
            Op::Not => 0x9000 | r(0) << 9 | r(1) << 6 | 0x3F,
            Op::Br(f, _) => match pcrel(9, &mut either) {
                Ok(o) => ((f as u16) & 7) << 9 | o,
                Err(v) => return v,
            },
            Op::Jmp => 0xC000 | r(0) << 6,
            Op::Ret => 0xC1C0,
            Op::Jsr => match pcrel(11, &mut either) {
                Ok(o) => 0x4800 | o,
                Err(v) => return v,
            },
            Op::Jsrr => 0x4000 | r(0) << 6,
            Op::Ld | Op::Ldi | Op::Lea | Op::St | Op::Sti => {
                let opc = match s.op {
                    Op::Ld => 0x2000,
                    Op::Ldi => 0xA000,
                    Op::Lea => 0xE000,
                    Op::St => 0x3000,
                    _ => 0xB000,
                };
                match pcrel(9, &mut either) {
                    Ok(o) => opc | r(0) << 9 | o,
                    Err(v) => return v,
                }
            }
            Op::Ldr | Op::Str => {
                let opc = if s.op == Op::Ldr { 0x6000 } else { 0x7000 };
                let Operand::Lit(l) = &s.operand else { return Verdict::Reject("operand kind") };
                let off = match fit_signed(l, 6) {
                    Fit::Yes(f) => f,
                    Fit::No => return Verdict::Reject("offset6 out of range"),
                    Fit::Either(f) => {
                        either = Some("hex literal >= 0x8000 in a signed field");
                        f
                    }
                    Fit::Unspec(why) => return Verdict::Unspecified(why),
                };
                opc | r(0) << 9 | r(1) << 6 | off
            }
            Op::Rti => 0x8000,
            Op::Trap => {
                let Operand::Lit(l) = &s.operand else { return Verdict::Reject("operand kind") };
                match fit_unsigned(l, 8) {
                    Fit::Yes(f) => 0xF000 | f,
                    _ => return Verdict::Reject("trap vector out of range"),
                }
            }
            Op::Getc | Op::Out | Op::Puts | Op::In | Op::Putsp | Op::Halt | Op::Putn | Op::Reg => {
                0xF000 | s.op.trap_alias().unwrap()
            }
            Op::Push => 0xD400 | r(0) << 6,
            Op::Pop => 0xD000 | r(0) << 6,
            Op::Call => {
                if !matches!(s.operand, Operand::Label(_)) {
                    return Verdict::Unspecified("call with a literal operand");
                }
                match pcrel(10, &mut either) {
                    Ok(o) => 0xDC00 | o,
                    Err(v) => return v,
                }
            }
            Op::Rets => 0xD800,
            Op::Fill => {
                let Operand::Lit(l) = &s.operand else { return Verdict::Reject("operand kind") };
                words.push(l.word());
                word_line.push(li);
                continue;
            }
            Op::Blkw => {
                let Operand::Lit(l) = &s.operand else { return Verdict::Reject("operand kind") };
                for _ in 0..l.written().max(0) {
                    words.push(0);
                    word_line.push(li);
                }
                continue;
            }
            Op::Stringz => {
                let Operand::Str(text) = &s.operand else { return Verdict::Reject("operand kind") };
                for c in text.chars() {
                    if c as u32 > 0xFFFF {
                        return Verdict::Unspecified("non-BMP character in .stringz");
                    }
                    words.push(c as u32 as u16);
                    word_line.push(li);
                }
                words.push(0);
                word_line.push(li);
                continue;
            }
        };
        words.push(word);
        word_line.push(li);
    }
    let image = RefImage { orig, words, breaks, word_line, labels };
    match either {
        Some(why) => Verdict::Either(image, why),
        None => Verdict::Accept(image),
    }
}

/// True distance (target - (here + 1)) of every label reference: (line index, delta, field bits).
pub fn label_deltas(p: &Program) -> Vec<(usize, i64, u32)> {
    let mut labels: Vec<(&str, usize)> = Vec::new();
    let mut idx = 0usize;
    for line in &p.lines {
        if let Some((name, _)) = &line.label {
            labels.push((name.as_str(), idx));
        }
        if let Body::Stmt(s) = &line.body {
            idx += s.size().unwrap_or(0);
        }
    }
    let mut out = Vec::new();
    let mut here = 0usize;
    for (li, line) in p.lines.iter().enumerate() {
        if let Body::Stmt(s) = &line.body {
            if let (Some(bits), Operand::Label(name)) = (s.op.pcrel_bits(), &s.operand) {
                if let Some((_, t)) = labels.iter().find(|(n, _)| n == name) {
                    out.push((li, *t as i64 - (here as i64 + 1), bits));
                }
            }
            here += s.size().unwrap_or(0);
        }
    }
    out
}

/// Wrap `p` so that its last statement refers back to a label on a new first statement, with
/// the whole program being exactly `total` words long (padding right after the first statement);
/// the reference is out of reach iff `total` exceeds the reach of the field. Returns None if the
/// program is already longer than `total`.
pub fn with_backward_reference(p: &Program, op: Op, regs: &[u8], total: usize) -> Option<Program> {
    let mut w0 = 0usize;
    for l in &p.lines {
        if let Body::Stmt(s) = &l.body {
            w0 += s.size()?;
        }
    }
    let pad = total.checked_sub(w0 + 2)?;
    let mut lines: Vec<Line> = Vec::new();
    let mut rest = p.lines.clone();
    // keep a leading `.orig` first
    if matches!(rest.first().map(|l| &l.body), Some(Body::Orig(_))) {
        lines.push(rest.remove(0));
    }
    lines.push(Line::stmt(Some("FARBACK"), Stmt::new(Op::Add, &[0, 0], Operand::Lit(Lit::Dec(0)))));
    if pad > 0 {
        lines.push(Line::stmt(None, Stmt::new(Op::Blkw, &[], Operand::Lit(Lit::Dec(pad as i32)))));
    }
    lines.extend(rest);
    lines.push(Line::stmt(None, Stmt::new(op, regs, Operand::Label("FARBACK".into()))));
    Some(Program { lines })
}

/// Convenience: encode a program that is accepted by construction.
pub fn encode(p: &Program, stack: bool) -> Option<RefImage> {
    match judge(p, stack) {
        Verdict::Accept(i) => Some(i),
        _ => None,
    }
}

// ---------------------------------------------------------------------------------------------
// Rendering

#[derive(Clone, Copy, Debug, Serialize, Deserialize, PartialEq, Eq, Hash)]
pub struct Layout {
    pub seed: u64,
    /// 0: canonical (lower case, single spaces, one statement per line, no comments)
    /// 1: varied separators and case
    /// 2: varied + comments (ASCII and multi-byte), blank lines, own-line labels, CRLF, indentation
    /// 3: like 2, and a third of the separators inside a statement hold a line break (the statement
    ///    goes on on the next line)
    pub style: u8,
    /// terminate with `.end` (followed by text that must be ignored when style >= 2)
    pub end: bool,
}

impl Layout {
    pub const CANON: Layout = Layout { seed: 0, style: 0, end: false };
}

struct Rng(u64);
impl Rng {
    fn next(&mut self) -> u64 {
        // splitmix64
        self.0 = self.0.wrapping_add(0x9E3779B97F4A7C15);
        let mut z = self.0;
        z = (z ^ (z >> 30)).wrapping_mul(0xBF58476D1CE4E5B9);
        z = (z ^ (z >> 27)).wrapping_mul(0x94D049BB133111EB);
        z ^ (z >> 31)
    }
    fn below(&mut self, n: u64) -> u64 {
        self.next() % n
    }
    fn chance(&mut self, num: u64, den: u64) -> bool {
        self.below(den) < num
    }
}

const SEPS: &[&str] = &[" ", ",", ", ", " ,", "\t", "  ", " , ", ",\t"];
const COMMENTS: &[&str] = &[
    "; comment",
    ";",
    "; add r0, r0, #1 \"quoted\"",
    "; héllo wörld ünïcode",
    ";; 日本語のコメント",
    "; 😀 emoji .fill x1",
    ";\ttabbed: label, colon",
];

fn escape_str(s: &str) -> String {
    let mut out = String::from("\"");
    for c in s.chars() {
        match c {
            '\n' => out.push_str("\\n"),
            '\t' => out.push_str("\\t"),
            '\r' => out.push_str("\\r"),
            '\\' => out.push_str("\\\\"),
            '"' => out.push_str("\\\""),
            c => out.push(c),
        }
    }
    out.push('"');
    out
}

fn recase(s: &str, rng: &mut Rng, style: u8) -> String {
    if style == 0 {
        return s.to_string();
    }
    match rng.below(4) {
        0 => s.to_string(),
        1 => s.to_ascii_uppercase(),
        _ => s
            .chars()
            .map(|c| if rng.chance(1, 2) { c.to_ascii_uppercase() } else { c })
            .collect(),
    }
}

/// Text of one statement, mnemonic/directive through last operand, as tokens.
fn stmt_tokens(s: &Stmt, rng: &mut Rng, style: u8) -> Vec<String> {
    let mut toks = vec![recase(&s.op.mnemonic(), rng, style)];
    for r in &s.regs {
        let c = if style > 0 && rng.chance(1, 2) { 'R' } else { 'r' };
        toks.push(format!("{c}{}", r & 7));
    }
    match &s.operand {
        Operand::None => {}
        Operand::Reg(r) => {
            let c = if style > 0 && rng.chance(1, 2) { 'R' } else { 'r' };
            toks.push(format!("{c}{}", r & 7));
        }
        Operand::Lit(l) => toks.push(l.text()),
        Operand::Label(n) => toks.push(n.clone()),
        Operand::Str(t) => toks.push(escape_str(t)),
    }
    toks
}

#[derive(Clone, Debug, PartialEq, Eq)]
pub struct Rendered {
    pub text: String,
    /// For each line of the program that is a statement: byte range of its text
    /// (mnemonic/directive through last operand). Indexed like `Program.lines`; None for
    /// `.break` / `.orig` lines.
    pub stmt_span: Vec<Option<(usize, usize)>>,
}

pub fn render(p: &Program, lay: Layout) -> Rendered {
    let mut rng = Rng(lay.seed ^ 0xA5A5_5A5A_1234_5678);
    let style = lay.style;
    let nl = if style >= 2 && rng.chance(1, 4) { "\r\n" } else { "\n" };
    let mut out = String::new();
    let mut spans = Vec::with_capacity(p.lines.len());
    if style >= 2 && rng.chance(1, 3) {
        out.push_str(COMMENTS[rng.below(COMMENTS.len() as u64) as usize]);
        out.push_str(nl);
    }
    let nlines = p.lines.len();
    for (i, line) in p.lines.iter().enumerate() {
        if style >= 2 {
            while rng.chance(1, 6) {
                if rng.chance(1, 2) {
                    out.push_str("  ");
                    out.push_str(COMMENTS[rng.below(COMMENTS.len() as u64) as usize]);
                }
                out.push_str(nl);
            }
            if rng.chance(2, 3) {
                out.push_str(["    ", "\t", " ", "        "][rng.below(4) as usize]);
            }
        }
        let sep = |rng: &mut Rng| -> &'static str {
            if style == 0 {
                " "
            } else if style == 3 && rng.chance(1, 3) {
                // the statement goes on on the next line
                ["\n    ", ",\n\t", " ,\n", "\n", " \n  , "][rng.below(5) as usize]
            } else {
                SEPS[rng.below(SEPS.len() as u64) as usize]
            }
        };
        if let Some((name, colon)) = &line.label {
            out.push_str(name);
            if *colon {
                out.push(':');
                if style >= 2 && rng.chance(1, 4) {
                    out.push_str(nl);
                    out.push_str("    ");
                } else if style == 0 || rng.chance(2, 3) {
                    out.push(' ');
                }
            } else if style >= 2 && rng.chance(1, 4) {
                out.push_str(nl);
                out.push('\t');
            } else {
                out.push_str(if style == 0 { " " } else { [" ", "\t", "  ", " : "][rng.below(4) as usize] });
            }
        }
        match &line.body {
            Body::Break => {
                out.push_str(&recase(".break", &mut rng, style));
                spans.push(None);
            }
            Body::Orig(l) => {
                out.push_str(&recase(".orig", &mut rng, style));
                out.push_str(sep(&mut rng));
                out.push_str(&l.text());
                spans.push(None);
            }
            Body::Stmt(s) => {
                let toks = stmt_tokens(s, &mut rng, style);
                let start = out.len();
                for (k, t) in toks.iter().enumerate() {
                    if k > 0 {
                        out.push_str(sep(&mut rng));
                    }
                    out.push_str(t);
                }
                spans.push(Some((start, out.len())));
            }
        }
        if style >= 2 && rng.chance(1, 3) {
            out.push_str([" ", "\t", "   "][rng.below(3) as usize]);
            out.push_str(COMMENTS[rng.below(COMMENTS.len() as u64) as usize]);
        } else if style >= 1 && rng.chance(1, 8) {
            out.push_str("  ");
        }
        let last = i + 1 == nlines;
        if !last || lay.end || style == 0 || rng.chance(3, 4) {
            out.push_str(nl);
        }
    }
    if lay.end {
        out.push_str(&recase(".end", &mut rng, style));
        out.push_str(nl);
        if style >= 2 {
            out.push_str("; trailing comment after .end");
            out.push_str(nl);
        }
    }
    Rendered { text: out, stmt_span: spans }
}
