//! RefCmd: reference for the debugger's command-line grammar (DESIGN.md Appendix D), written
//! from the doc comment of the integer parser, the `NaiveType` pattern table, `help.txt` and the
//! command-name table.

#[derive(Clone, Debug, PartialEq, Eq)]
pub enum Int {
    Value(i128),
    /// not an integer (may still be a label)
    NotInt,
    /// malformed integer: the whole token is invalid
    Error,
}

fn digit(radix: u32, c: char) -> Option<u32> {
    c.to_digit(16).filter(|d| *d < radix)
}

/// INT(t) of Appendix D.
pub fn int(t: &str) -> Int {
    let cs: Vec<char> = t.chars().collect();
    if cs.is_empty() {
        return Int::NotInt;
    }
    let mut i = 0;
    let sign_at = |i: usize| -> Option<i128> {
        match cs.get(i) {
            Some('+') => Some(1),
            Some('-') => Some(-1),
            _ => None,
        }
    };
    let s1 = sign_at(i);
    if s1.is_some() {
        i += 1;
    }
    let z = cs.get(i) == Some(&'0');
    if z {
        i += 1;
    }
    let radix: u32 = match cs.get(i) {
        Some('b' | 'B') => {
            i += 1;
            2
        }
        Some('o' | 'O') => {
            i += 1;
            8
        }
        Some('x' | 'X') => {
            i += 1;
            16
        }
        Some('#') => {
            if z {
                return Int::Error;
            }
            i += 1;
            10
        }
        Some(c) if c.is_ascii_digit() => 10,
        Some('+' | '-') => return Int::Error,
        None => {
            return if z {
                Int::Value(0)
            } else if s1.is_some() {
                Int::Error
            } else {
                Int::NotInt
            }
        }
        Some(_) => return if z || s1.is_some() { Int::Error } else { Int::NotInt },
    };
    let s2 = sign_at(i);
    if s2.is_some() {
        i += 1;
    }
    if s1.is_some() && s2.is_some() {
        return Int::Error;
    }
    let sign = s1.or(s2);
    let strict = sign.is_some() || z || radix == 10;
    let bad = if strict { Int::Error } else { Int::NotInt };
    if i >= cs.len() {
        return bad;
    }
    let mut v: i128 = 0;
    for c in &cs[i..] {
        let Some(d) = digit(radix, *c) else { return bad };
        v = (v * radix as i128 + d as i128).min(1i128 << 100);
    }
    if v > i32::MAX as i128 {
        return Int::Error;
    }
    Int::Value(sign.unwrap_or(1) * v)
}

/// VALUE context (`move`'s value, `step into`'s count): accepted iff an integer in
/// [-32768, 65535]; stored modulo 2^16.
pub fn value(t: &str) -> Option<u16> {
    // anything that is shaped like another kind of argument is a type error
    match int(t) {
        Int::Value(v) if (-32768..=65535).contains(&v) => Some(v as i64 as u16),
        _ => None,
    }
}

#[derive(Clone, Debug, PartialEq, Eq)]
pub enum Loc {
    Abs(u16),
    PcOff(i16),
    Label(String, i16),
}

fn is_register_shape(t: &str) -> bool {
    let cs: Vec<char> = t.chars().collect();
    cs.len() >= 2
        && matches!(cs[0], 'r' | 'R')
        && ('0'..='7').contains(&cs[1])
        && !cs.get(2).map(|c| c.is_ascii_alphanumeric() || *c == '_').unwrap_or(false)
}

/// LOC(t) for memory-only commands (goto, break add/remove, assembly): None = rejected.
pub fn location(t: &str) -> Option<Loc> {
    if let Some(rest) = t.strip_prefix('^') {
        if rest.is_empty() {
            return Some(Loc::PcOff(0));
        }
        return match int(rest) {
            Int::Value(v) if (-32768..=32767).contains(&v) => Some(Loc::PcOff(v as i16)),
            _ => None,
        };
    }
    if is_register_shape(t) {
        return None;
    }
    match int(t) {
        Int::Value(v) if (0..=65535).contains(&v) => return Some(Loc::Abs(v as u16)),
        Int::Value(_) | Int::Error => return None,
        Int::NotInt => {}
    }
    // label [+-]INT
    let cs: Vec<char> = t.chars().collect();
    if !cs.first().map(|c| c.is_ascii_alphabetic() || *c == '_').unwrap_or(false) {
        return None;
    }
    let mut n = 1;
    while n < cs.len() && (cs[n].is_ascii_alphanumeric() || cs[n] == '_') {
        n += 1;
    }
    let name: String = cs[..n].iter().collect();
    let rest: String = cs[n..].iter().collect();
    if rest.is_empty() {
        return Some(Loc::Label(name, 0));
    }
    // the offset's sign must come first
    if !rest.starts_with('+') && !rest.starts_with('-') {
        return None;
    }
    match int(&rest) {
        Int::Value(v) if (-32768..=32767).contains(&v) => Some(Loc::Label(name, v as i16)),
        _ => None,
    }
}

// ---------------------------------------------------------------------------------------------
// Command names: (canonical text, accepted single-word candidates, misspellings that only get a
// suggestion). From help.txt and the name table.

pub struct NameEntry {
    pub canonical: &'static str,
    pub candidates: &'static [&'static str],
    pub misspellings: &'static [&'static str],
}

pub const NAMES: &[NameEntry] = &[
    NameEntry { canonical: "help", candidates: &["h", "help", "--help", "-h", ":h", "man", "info", "wtf"], misspellings: &[] },
    NameEntry { canonical: "continue", candidates: &["c", "continue", "cont"], misspellings: &["con", "proceed"] },
    NameEntry { canonical: "print", candidates: &["p", "print"], misspellings: &["get", "show", "display", "put", "puts"] },
    NameEntry { canonical: "move", candidates: &["m", "move"], misspellings: &["set", "mov", "mv", "assign"] },
    NameEntry { canonical: "registers", candidates: &["r", "registers", "reg"], misspellings: &["dump", "register", "regs"] },
    NameEntry { canonical: "goto", candidates: &["g", "goto"], misspellings: &["jump", "call", "go", "go-to", "jsr", "jsrr", "brn", "brz", "brp", "brnz", "brnp", "brzp", "brnzp"] },
    NameEntry { canonical: "assembly", candidates: &["a", "assembly", "asm"], misspellings: &["source", "src", "ass", "inspect"] },
    NameEntry { canonical: "eval", candidates: &["e", "eval", "evil", "evaluate"], misspellings: &["run", "exec", "execute", "sim", "simulate", "instruction", "instr"] },
    NameEntry { canonical: "reset", candidates: &["z", "reset"], misspellings: &["restart", "refresh", "reboot"] },
    NameEntry { canonical: "echo", candidates: &["echo"], misspellings: &[] },
    NameEntry { canonical: "quit", candidates: &["q", "quit"], misspellings: &[] },
    NameEntry { canonical: "exit", candidates: &["x", "exit", ":q", ":wq", "^C"], misspellings: &["halt", "end", "stop"] },
    NameEntry { canonical: "step", candidates: &["step", "s"], misspellings: &["next", "step-over", "stepover"] },
    NameEntry { canonical: "step into", candidates: &["si", "stepinto", "step into", "step i", "s i", "s into"], misspellings: &["into", "in", "stepin", "step-into", "step-in", "stepi", "step-i", "sin", "step in", "s in"] },
    NameEntry { canonical: "step out", candidates: &["so", "stepout", "step out", "step o", "s o", "s out"], misspellings: &["finish", "fin", "step-out", "stepo", "step-o", "sout", "step finish", "s fin"] },
    NameEntry { canonical: "break list", candidates: &["bl", "breaklist", "break list", "break l", "b l", "b list"], misspellings: &["break-list", "break-ls", "blist", "bls", "bp", "breakpoint", "breakpointlist", "breakpoint-list", "break print", "b show", "break display", "b dump", "break ls"] },
    NameEntry { canonical: "break add", candidates: &["ba", "breakadd", "break add", "break a", "b a", "b add"], misspellings: &["break-add", "badd", "breakpointadd", "breakpoint-add", "break set", "b move"] },
    NameEntry { canonical: "break remove", candidates: &["br", "breakremove", "break remove", "break r", "b r", "b remove"], misspellings: &["break-remove", "break-rm", "bremove", "brm", "breakpointremove", "breakpoint-remove", "break delete", "b rm"] },
];
