//! RefDbg: reference model of the debugger's control semantics, written from the statements of
//! C09-C13/C15/C16 and `help.txt` (DESIGN.md Appendix C). Runs on RefVM.

use std::collections::BTreeSet;

use serde::{Deserialize, Serialize};

use crate::refasm::{self, Op, Operand, Stmt};
use crate::refvm::{self, Event, Io, Out, Vm, USER_END};

/// A location argument, with enough spelling information to render it.
#[derive(Clone, Debug, Serialize, Deserialize, PartialEq, Eq, Hash)]
pub enum Loc {
    /// absolute address; radix selector for rendering (0: xHEX, 1: #dec, 2: plain dec, 3: 0xHEX, 4: octal, 5: binary)
    Abs(u16, u8),
    /// label plus offset
    Label(String, i32),
    /// `^offset` (None: bare `^`)
    PcOff(Option<i32>),
}

#[derive(Clone, Debug, Serialize, Deserialize, PartialEq, Eq, Hash)]
pub enum PLoc {
    Reg(u8),
    Mem(Loc),
}

#[derive(Clone, Debug, Serialize, Deserialize, PartialEq, Eq, Hash)]
pub enum Cmd {
    Step,
    /// `step into [count]`
    StepInto(Option<u16>),
    StepOut,
    Continue,
    BreakAdd(Loc),
    BreakRemove(Loc),
    BreakList,
    Print(PLoc),
    Registers,
    Assembly(Option<Loc>),
    Echo(String),
    Help,
    Reset,
    Move(PLoc, u16),
    Goto(Loc),
    Eval(Stmt),
    /// eval with arbitrary text that must be refused
    EvalText(String),
    Quit,
    Exit,
}

fn fmt_int(v: i64, style: u8) -> String {
    let (neg, m) = if v < 0 { ("-", -v) } else { ("", v) };
    match style % 6 {
        0 => format!("{neg}x{m:x}"),
        1 => format!("#{neg}{m}"),
        2 => format!("{neg}{m}"),
        3 => format!("{neg}0x{m:X}"),
        4 => format!("{neg}o{m:o}"),
        _ => format!("{neg}b{m:b}"),
    }
}

impl Loc {
    pub fn text(&self) -> String {
        match self {
            Loc::Abs(a, style) => fmt_int(*a as i64, *style),
            Loc::Label(n, 0) => n.clone(),
            Loc::Label(n, off) => {
                if *off >= 0 {
                    format!("{n}+{}", fmt_int(*off as i64, (*off % 3) as u8))
                } else {
                    format!("{n}-{}", fmt_int(-(*off as i64), (off.unsigned_abs() % 3) as u8))
                }
            }
            Loc::PcOff(None) => "^".into(),
            Loc::PcOff(Some(off)) => format!("^{}", fmt_int(*off as i64, (off.unsigned_abs() % 3) as u8)),
        }
    }
}
impl PLoc {
    pub fn text(&self) -> String {
        match self {
            PLoc::Reg(r) => format!("r{}", r & 7),
            PLoc::Mem(l) => l.text(),
        }
    }
}

pub fn stmt_text(s: &Stmt) -> String {
    let mut toks = vec![s.op.mnemonic()];
    for r in &s.regs {
        toks.push(format!("r{}", r & 7));
    }
    match &s.operand {
        Operand::None => {}
        Operand::Reg(r) => toks.push(format!("r{}", r & 7)),
        Operand::Lit(l) => toks.push(l.text()),
        Operand::Label(n) => toks.push(n.clone()),
        Operand::Str(_) => {}
    }
    toks.join(" ")
}

impl Cmd {
    /// Canonical command text. `alias` picks among the documented names.
    pub fn text(&self, alias: u8) -> String {
        let pick = |names: &[&str]| names[alias as usize % names.len()].to_string();
        match self {
            Cmd::Step => pick(&["step", "s"]),
            Cmd::StepInto(None) => pick(&["step into", "si", "s i", "stepinto", "step i"]),
            Cmd::StepInto(Some(k)) => format!("{} {}", pick(&["step into", "si", "s i", "stepinto", "s into"]), fmt_int(*k as i64, alias >> 3)),
            Cmd::StepOut => pick(&["step out", "so", "s o", "stepout"]),
            Cmd::Continue => pick(&["continue", "c", "cont"]),
            Cmd::BreakAdd(l) => format!("{} {}", pick(&["break add", "ba", "b a", "breakadd"]), l.text()),
            Cmd::BreakRemove(l) => format!("{} {}", pick(&["break remove", "br", "b r", "breakremove"]), l.text()),
            Cmd::BreakList => pick(&["break list", "bl", "b l", "breaklist"]),
            Cmd::Print(l) => format!("{} {}", pick(&["print", "p"]), l.text()),
            Cmd::Registers => pick(&["registers", "r", "reg"]),
            Cmd::Assembly(None) => pick(&["assembly", "a", "asm"]),
            Cmd::Assembly(Some(l)) => format!("{} {}", pick(&["assembly", "a", "asm"]), l.text()),
            Cmd::Echo(t) => format!("echo {t}"),
            Cmd::Help => pick(&["help", "h"]),
            Cmd::Reset => pick(&["reset", "z"]),
            Cmd::Move(l, v) => format!("{} {} {}", pick(&["move", "m"]), l.text(), fmt_int(*v as i64, alias >> 2)),
            Cmd::Goto(l) => format!("{} {}", pick(&["goto", "g"]), l.text()),
            Cmd::Eval(s) => format!("{} {}", pick(&["eval", "e"]), stmt_text(s)),
            Cmd::EvalText(t) => format!("eval {t}"),
            Cmd::Quit => pick(&["quit", "q"]),
            Cmd::Exit => pick(&["exit", "x"]),
        }
    }
    pub fn is_resuming(&self) -> bool {
        matches!(self, Cmd::Step | Cmd::StepInto(_) | Cmd::StepOut | Cmd::Continue)
    }
}

pub fn is_halt(w: u16) -> bool {
    w >> 12 == 0xF && w & 0xFF == 0x25
}
pub fn is_ret(w: u16) -> bool {
    (w >> 12 == 0xC && (w >> 6) & 7 == 7) || (w >> 12 == 0xD && (w >> 10) & 3 == 0b10)
}
pub fn is_call(w: u16) -> bool {
    w >> 12 == 0x4 || (w >> 12 == 0xD && (w >> 10) & 3 == 0b11)
}

#[derive(Clone, Debug, PartialEq, Eq)]
pub enum Pause {
    Breakpoint,
    Halt,
    OutOfBounds,
    /// the command completed (count exhausted, return executed, following address reached)
    Done,
}

#[derive(Clone, Debug, PartialEq, Eq)]
pub enum Effect {
    /// command refused / error: nothing changed
    Refused(&'static str),
    /// executed instructions, then paused for this reason
    Ran { executed: u64, pause: Pause },
    /// state changed / inspected without executing
    Applied,
    /// the reference cannot say what must happen (reason): stop comparing the history here
    Ambiguous(&'static str),
    /// session over (`exit`), or detached (`quit`) - handled by the caller
    Ends,
}

/// Which reading of "`step` over a call pauses at the following address" the model follows.
#[derive(Clone, Copy, Debug, PartialEq, Eq)]
pub enum StepReading {
    /// both readings must agree, otherwise the effect is `Ambiguous`
    Strict,
    /// pause the first time PC equals the following address
    FirstArrival,
    /// pause when the call has returned (call depth back to the caller's)
    CallReturned,
}

#[derive(Clone)]
pub struct Dbg<'a> {
    pub step_reading: StepReading,
    pub vm: Vm,
    pub initial: Vm,
    pub bps: BTreeSet<u16>,
    pub io: Io<'a>,
    /// label name -> absolute address
    pub symbols: Vec<(String, u16)>,
    pub executed: u64,
    /// hard cap on instructions a single resuming command may execute in the model
    pub budget: u64,
    pub out_of_budget: bool,
    /// set when the model hits something the claim does not cover while executing
    pub unspecified: Option<&'static str>,
    /// a TRAP x27 (REG) was executed: its listing has a different format in the normal output mode
    pub executed_reg: bool,
}

impl<'a> Dbg<'a> {
    pub fn new(vm: Vm, bps: impl IntoIterator<Item = u16>, symbols: Vec<(String, u16)>, input: &'a [u8], budget: u64) -> Self {
        Dbg {
            step_reading: StepReading::Strict,
            initial: vm.clone(),
            vm,
            bps: bps.into_iter().collect(),
            io: Io::new(input),
            symbols,
            executed: 0,
            budget,
            out_of_budget: false,
            unspecified: None,
            executed_reg: false,
        }
    }

    pub fn user(&self, a: u16) -> bool {
        a >= self.vm.orig && a < USER_END
    }

    /// Resolve a location to an address; None = refused (out of user space, unknown label,
    /// arithmetic leaving 16 bits).
    pub fn resolve(&self, l: &Loc) -> Option<u16> {
        let a: i64 = match l {
            Loc::Abs(a, _) => *a as i64,
            Loc::Label(n, off) => {
                let (_, base) = self.symbols.iter().find(|(x, _)| x == n)?;
                *base as i64 + *off as i64
            }
            Loc::PcOff(off) => self.vm.pc as i64 + off.unwrap_or(0) as i64,
        };
        if a < 0 || a > 0xFFFF {
            return None;
        }
        Some(a as u16)
    }

    fn pause_reason(&self, skip_bp: bool) -> Option<Pause> {
        let pc = self.vm.pc;
        if !self.user(pc) {
            return Some(Pause::OutOfBounds);
        }
        if self.bps.contains(&pc) && !skip_bp {
            return Some(Pause::Breakpoint);
        }
        if is_halt(self.vm.mem[pc as usize]) {
            return Some(Pause::Halt);
        }
        None
    }

    /// Execute the instruction at PC. Returns false if the model cannot continue.
    fn exec_one(&mut self) -> bool {
        let at = self.vm.pc;
        let w = self.vm.mem[at as usize];
        self.vm.pc = at.wrapping_add(1);
        if w >> 12 == 0xF && w & 0xFF == 0x27 {
            self.executed_reg = true;
        }
        match self.vm.step(w, &mut self.io) {
            Event::Done | Event::Halt => {}
            Event::Unspecified("non-ascii-input") => {}
            Event::Exit(_) => {
                self.vm.pc = at.wrapping_add(1);
                self.unspecified = Some("program-error-exit-inside-debugger");
                return false;
            }
            Event::Rti => {
                self.vm.pc = at;
                self.unspecified = Some("rti");
                return false;
            }
            Event::Unspecified(k) => {
                self.vm.pc = at;
                self.unspecified = Some(k);
                return false;
            }
        }
        self.executed += 1;
        true
    }

    pub fn apply(&mut self, cmd: &Cmd) -> Effect {
        match cmd {
            Cmd::Quit | Cmd::Exit => Effect::Ends,
            Cmd::Help | Cmd::Echo(_) | Cmd::Registers | Cmd::BreakList => Effect::Applied,
            Cmd::Print(PLoc::Reg(_)) => Effect::Applied,
            Cmd::Print(PLoc::Mem(l)) => match self.resolve_print(l) {
                Some(_) => Effect::Applied,
                None => Effect::Refused("bad location"),
            },
            Cmd::Assembly(l) => {
                let l = l.clone().unwrap_or(Loc::PcOff(None));
                match self.resolve_print(&l) {
                    Some(_) => Effect::Applied,
                    None => Effect::Refused("bad location"),
                }
            }
            Cmd::Reset => {
                self.vm = self.initial.clone();
                Effect::Applied
            }
            Cmd::Move(PLoc::Reg(r), v) => {
                self.vm.r[(*r & 7) as usize] = *v;
                Effect::Applied
            }
            Cmd::Move(PLoc::Mem(l), v) => match self.resolve(l).filter(|a| self.user(*a)) {
                Some(a) => {
                    self.vm.mem[a as usize] = *v;
                    Effect::Applied
                }
                None => Effect::Refused("address outside user space"),
            },
            Cmd::Goto(l) => match self.resolve(l).filter(|a| self.user(*a)) {
                Some(a) => {
                    self.vm.pc = a;
                    Effect::Applied
                }
                None => Effect::Refused("address outside user space"),
            },
            Cmd::BreakAdd(l) => match self.resolve(l).filter(|a| self.user(*a)) {
                Some(a) => {
                    if self.bps.insert(a) {
                        Effect::Applied
                    } else {
                        Effect::Refused("breakpoint exists")
                    }
                }
                None => Effect::Refused("address outside user space"),
            },
            Cmd::BreakRemove(l) => match self.resolve(l).filter(|a| self.user(*a)) {
                Some(a) => {
                    if self.bps.remove(&a) {
                        Effect::Applied
                    } else {
                        Effect::Refused("no breakpoint there")
                    }
                }
                None => Effect::Refused("address outside user space"),
            },
            Cmd::EvalText(_) => Effect::Refused("not one well-formed instruction"),
            Cmd::Eval(s) => self.eval(s),
            Cmd::Step | Cmd::StepInto(_) | Cmd::StepOut | Cmd::Continue => self.resume(cmd),
        }
    }

    /// `print`/`assembly` accept any address in memory (reading cannot hurt), but label and
    /// PC-offset arithmetic must stay inside user space per the documented location grammar.
    fn resolve_print(&self, l: &Loc) -> Option<u16> {
        match l {
            Loc::Abs(a, _) => Some(*a),
            _ => self.resolve(l).filter(|a| self.user(*a)),
        }
    }

    fn resume(&mut self, cmd: &Cmd) -> Effect {
        let pc = self.vm.pc;
        if self.user(pc) && is_halt(self.vm.mem[pc as usize]) {
            return Effect::Refused("already at HALT");
        }
        if matches!(cmd, Cmd::StepOut) && !self.vm.stack_on {
            return Effect::Refused("step out needs the stack feature");
        }
        let start = self.executed;
        let mut skip_bp = true;
        let mut ran = |me: &mut Self, pause: Pause| Effect::Ran { executed: me.executed - start, pause };
        let mut left = self.budget;
        macro_rules! one {
            () => {{
                if left == 0 {
                    self.out_of_budget = true;
                    return Effect::Ambiguous("model budget exhausted");
                }
                left -= 1;
                if !self.exec_one() {
                    return Effect::Ambiguous(self.unspecified.unwrap_or("unspecified"));
                }
                skip_bp = false;
            }};
        }
        match cmd {
            Cmd::StepInto(k) => {
                let n = k.unwrap_or(1).max(1);
                for _ in 0..n {
                    if let Some(p) = self.pause_reason(skip_bp) {
                        return ran(self, p);
                    }
                    one!();
                }
                // the count is used up; a pause condition at the new PC is reported on the next turn
                let p = self.pause_reason(false).unwrap_or(Pause::Done);
                ran(self, p)
            }
            Cmd::Continue => loop {
                if let Some(p) = self.pause_reason(skip_bp) {
                    return ran(self, p);
                }
                one!();
            },
            Cmd::StepOut => loop {
                if let Some(p) = self.pause_reason(skip_bp) {
                    return ran(self, p);
                }
                let w = self.vm.mem[self.vm.pc as usize];
                one!();
                if is_ret(w) {
                    let p = self.pause_reason(false).unwrap_or(Pause::Done);
                    return ran(self, p);
                }
            },
            Cmd::Step => {
                if let Some(p) = self.pause_reason(skip_bp) {
                    return ran(self, p);
                }
                let w = self.vm.mem[pc as usize];
                if !is_call(w) {
                    one!();
                    let p = self.pause_reason(false).unwrap_or(Pause::Done);
                    return ran(self, p);
                }
                // whole subroutine: until the following address. Two readings ("first time
                // PC == following address" / "the call has returned") are tracked.
                let ret = pc.wrapping_add(1);
                let mut depth: i64 = 0;
                loop {
                    if let Some(p) = self.pause_reason(skip_bp) {
                        return ran(self, p);
                    }
                    let w = self.vm.mem[self.vm.pc as usize];
                    one!();
                    if is_call(w) {
                        depth += 1;
                    } else if is_ret(w) {
                        depth -= 1;
                    }
                    let at_ret = self.vm.pc == ret;
                    let returned = depth <= 0;
                    let stop = match self.step_reading {
                        StepReading::Strict => {
                            if at_ret != returned {
                                // a deeper activation reached the following address first, or
                                // the subroutine returned somewhere else: the readings disagree
                                return Effect::Ambiguous("step over: readings disagree");
                            }
                            at_ret
                        }
                        StepReading::FirstArrival => at_ret,
                        StepReading::CallReturned => returned,
                    };
                    if stop {
                        let p = self.pause_reason(false).unwrap_or(Pause::Done);
                        return ran(self, p);
                    }
                }
            }
            _ => unreachable!(),
        }
    }

    /// `eval <instruction>`: ISA semantics at the current PC; a label operand denotes the label's
    /// address. Refused: BR*, RTI, HALT, unknown traps, labels out of the field's reach.
    fn eval(&mut self, s: &Stmt) -> Effect {
        if matches!(s.op, Op::Br(..) | Op::Rti | Op::Halt | Op::Fill | Op::Blkw | Op::Stringz) {
            return Effect::Refused("instruction is off-limits");
        }
        if s.op.is_stack() && !self.vm.stack_on {
            return Effect::Refused("stack mnemonic without the feature");
        }
        if s.op == Op::Trap {
            if let Operand::Lit(l) = &s.operand {
                let v = l.written();
                if !(0x20..=0x27).contains(&v) || v == 0x25 {
                    return Effect::Refused("trap is off-limits");
                }
            }
        }
        // Encode with the PC-relative field chosen so that the effective address is the label's.
        let pc = self.vm.pc;
        let word = match (&s.operand, s.op.pcrel_bits()) {
            (Operand::Label(name), Some(bits)) => {
                let Some((_, addr)) = self.symbols.iter().find(|(n, _)| n == name) else {
                    return Effect::Refused("unknown label");
                };
                // address arithmetic is modulo 2^16: the field must reach the label after wrapping
                let delta = addr.wrapping_sub(pc) as i16 as i64;
                let lo = -(1i64 << (bits - 1));
                let hi = (1i64 << (bits - 1)) - 1;
                if delta < lo || delta > hi {
                    return Effect::Refused("label out of reach");
                }
                let mut lit = s.clone();
                lit.operand = Operand::Lit(refasm::Lit::Dec(delta as i32));
                if s.op == Op::Call {
                    0xDC00 | (delta as u16 & 0x3FF)
                } else {
                    match encode_one(&lit, self.vm.stack_on) {
                        Some(w) => w,
                        None => return Effect::Refused("not encodable"),
                    }
                }
            }
            (Operand::Lit(_), Some(_)) => return Effect::Ambiguous("literal PC offset in eval"),
            _ => match encode_one(s, self.vm.stack_on) {
                Some(w) => w,
                None => return Effect::Refused("not encodable"),
            },
        };
        if word >> 12 == 0xF && word & 0xFF == 0x27 {
            self.executed_reg = true;
        }
        match self.vm.step(word, &mut self.io) {
            Event::Done => Effect::Applied,
            Event::Unspecified("non-ascii-input") => Effect::Applied,
            Event::Halt => Effect::Refused("halt"),
            Event::Exit(_) => Effect::Refused("refused word"),
            Event::Rti => Effect::Refused("rti"),
            Event::Unspecified(k) => Effect::Ambiguous(k),
        }
    }
}

/// Encode a single statement with literal operands.
pub fn encode_one(s: &Stmt, stack: bool) -> Option<u16> {
    let p = refasm::Program { lines: vec![refasm::Line { label: None, body: refasm::Body::Stmt(s.clone()) }] };
    match refasm::judge(&p, stack) {
        refasm::Verdict::Accept(img) if img.words.len() == 1 => Some(img.words[0]),
        _ => None,
    }
}

// ---------------------------------------------------------------------------------------------
// Parsing lace's minimal-mode transcript

#[derive(Clone, Debug, PartialEq, Eq)]
pub struct RegDump {
    pub r: [u16; 8],
    pub pc: u16,
    pub cc: u8,
}

/// Extract every `registers` listing from minimal-mode debugger output.
pub fn parse_reg_dumps(stderr: &str) -> Vec<RegDump> {
    let lines: Vec<&str> = stderr.lines().collect();
    let mut out = Vec::new();
    let mut i = 0;
    while i + 9 < lines.len() + 0 && i < lines.len() {
        if lines[i].starts_with("R0 x") && i + 9 < lines.len() + 1 {
            let mut r = [0u16; 8];
            let mut ok = true;
            for k in 0..8 {
                match lines.get(i + k).and_then(|l| l.strip_prefix(&format!("R{k} x"))).and_then(|h| u16::from_str_radix(h.trim(), 16).ok()) {
                    Some(v) => r[k] = v,
                    None => ok = false,
                }
            }
            let pc = lines.get(i + 8).and_then(|l| l.strip_prefix("PC x")).and_then(|h| u16::from_str_radix(h.trim(), 16).ok());
            let cc = lines.get(i + 9).and_then(|l| l.strip_prefix("CC ")).and_then(|h| u8::from_str_radix(h.trim(), 2).ok());
            if let (true, Some(pc), Some(cc)) = (ok, pc, cc) {
                out.push(RegDump { r, pc, cc });
                i += 10;
                continue;
            }
        }
        i += 1;
    }
    out
}

pub fn out_chars(out: &[Out]) -> Vec<Out> {
    out.to_vec()
}

pub use refvm::match_out;
