//! RefEdit: a plain reference line editor (DESIGN.md Appendix E). Lines are `Vec<char>`, the
//! cursor counts characters; word motions follow the Vim rules of `w` / `b` in characters.

use serde::{Deserialize, Serialize};

#[derive(Clone, Copy, Debug, Serialize, Deserialize, PartialEq, Eq, Hash)]
pub enum K {
    Ch(char),
    Bs,
    Del,
    Left,
    Right,
    CLeft,
    CRight,
    Up,
    Down,
    Enter,
}

#[derive(Clone, Debug)]
pub struct Edit {
    pub line: Vec<char>,
    pub cur: usize,
    pub hist: Vec<String>,
    pub idx: usize,
}

fn class(c: char) -> u8 {
    if c.is_whitespace() {
        0
    } else if c.is_alphanumeric() {
        1
    } else {
        2
    }
}

pub fn word_next(s: &[char], cur: usize) -> usize {
    let n = s.len();
    if cur >= n {
        return n;
    }
    let mut i = cur;
    let start = class(s[i]);
    if start != 0 {
        // skip the rest of the current run
        while i < n && class(s[i]) == start {
            i += 1;
        }
    }
    // skip blanks
    while i < n && class(s[i]) == 0 {
        i += 1;
    }
    i
}

pub fn word_back(s: &[char], cur: usize) -> usize {
    if cur <= 1 {
        return 0;
    }
    let mut i = (cur - 1).min(s.len().saturating_sub(1));
    while i > 0 && class(s[i]) == 0 {
        i -= 1;
    }
    let c = class(s[i]);
    while i > 0 && class(s[i - 1]) == c && c != 0 {
        i -= 1;
    }
    if c == 0 {
        0
    } else {
        i
    }
}

impl Edit {
    pub fn new(hist: Vec<String>) -> Self {
        let idx = hist.len();
        Edit { line: Vec::new(), cur: 0, hist, idx }
    }
    pub fn current(&self) -> Vec<char> {
        if self.idx >= self.hist.len() {
            self.line.clone()
        } else {
            self.hist[self.idx].chars().collect()
        }
    }
    fn materialise(&mut self) {
        if self.idx < self.hist.len() {
            self.line = self.hist[self.idx].chars().collect();
            self.idx = self.hist.len();
        }
    }
    pub fn begin_line(&mut self) {
        self.line.clear();
        self.cur = 0;
    }
    pub fn end_line(&mut self) {
        let text: String = self.line.iter().collect();
        if self.hist.last() != Some(&text) {
            self.hist.push(text);
        }
        self.idx = self.hist.len();
    }
    /// Returns the submitted text when the key submits the line.
    pub fn key(&mut self, k: K) -> Option<String> {
        match k {
            K::Ch(c) => {
                if !c.is_control() {
                    self.materialise();
                    let at = self.cur.min(self.line.len());
                    self.line.insert(at, c);
                    self.cur = at + 1;
                }
            }
            K::Bs => {
                self.materialise();
                if self.cur > 0 && self.cur <= self.line.len() {
                    self.line.remove(self.cur - 1);
                    self.cur -= 1;
                }
            }
            K::Del => {
                self.materialise();
                if self.cur < self.line.len() {
                    self.line.remove(self.cur);
                }
            }
            K::Left => {
                if self.cur > 0 {
                    self.cur -= 1;
                }
            }
            K::Right => {
                if self.cur < self.current().len() {
                    self.cur += 1;
                }
            }
            K::CLeft => self.cur = word_back(&self.current(), self.cur),
            K::CRight => self.cur = word_next(&self.current(), self.cur),
            K::Up => {
                if self.idx > 0 {
                    self.idx -= 1;
                    self.cur = self.current().len();
                }
            }
            K::Down => {
                if self.idx < self.hist.len() {
                    self.idx += 1;
                    self.cur = self.current().len();
                }
            }
            K::Enter => {
                let blank = self.line.iter().all(|c| c.is_whitespace());
                if self.idx >= self.hist.len() && blank {
                    self.line.clear();
                    self.cur = 0;
                } else {
                    self.materialise();
                    return Some(self.line.iter().collect());
                }
            }
        }
        None
    }
}
