//! RefVM: reference LC-3 + lace's documented stack extension and trap routines.
//! Written from the ISA tables (Patt & Patel, App. A), README.md and the format comment of the
//! stack extension — see DESIGN.md Appendix A. All arithmetic modulo 2^16.

use serde::{Deserialize, Serialize};

pub const USER_END: u16 = 0xFE00;

#[derive(Clone, Debug, PartialEq, Eq)]
pub struct Vm {
    pub r: [u16; 8],
    pub pc: u16,
    /// nzp bits; 0 = none set
    pub cc: u8,
    pub mem: Vec<u16>,
    pub orig: u16,
    pub stack_on: bool,
    /// address of the last memory write (bookkeeping for harnesses that reuse one memory)
    pub last_write: Option<u16>,
}

/// One item of expected program output.
#[derive(Clone, Debug, PartialEq, Eq, Serialize, Deserialize)]
pub enum Out {
    /// one character (code point 0..=255 from the VM, or banner text)
    Ch(u32),
    /// IN's prompt: any text (possibly none) - the ISA asks for a prompt but not which
    Prompt,
}

#[derive(Clone, Debug, PartialEq, Eq)]
pub enum Event {
    /// executed normally
    Done,
    /// HALT executed
    Halt,
    /// the machine stops with this exit status and nothing changes
    Exit(i32),
    /// RTI: outside the claim
    Rti,
    /// behaviour not specified by ISA/README: (kind)
    Unspecified(&'static str),
}

#[derive(Clone)]
pub struct Io<'a> {
    pub input: &'a [u8],
    pub pos: usize,
    pub out: Vec<Out>,
    /// value GETC/IN put into R0 for a non-ASCII input byte (adopted from the implementation);
    /// `None` = the byte itself
    pub non_ascii_r0: Option<u16>,
}

impl<'a> Io<'a> {
    pub fn new(input: &'a [u8]) -> Self {
        Io { input, pos: 0, out: Vec::new(), non_ascii_r0: Some(0xFFFD) }
    }
    fn put(&mut self, c: u32) {
        self.out.push(Out::Ch(c));
    }
    fn puts(&mut self, s: &str) {
        for c in s.chars() {
            self.out.push(Out::Ch(c as u32));
        }
    }
}

pub fn sx(bits: u32, w: u16) -> u16 {
    let shift = 16 - bits;
    (((w << shift) as i16) >> shift) as u16
}

fn cc_of(v: u16) -> u8 {
    if v & 0x8000 != 0 {
        0b100
    } else if v == 0 {
        0b010
    } else {
        0b001
    }
}

impl Vm {
    pub fn blank(orig: u16, stack_on: bool) -> Self {
        Vm { r: [0; 8], pc: orig, cc: 0, mem: vec![0; 0x10000], orig, stack_on, last_write: None }
    }

    /// Load state per C03: words at origin, HALT sentinel after them, PC = origin, R7 = 0xFDFF.
    pub fn load(orig: u16, words: &[u16], stack_on: bool) -> Self {
        let mut vm = Vm::blank(orig, stack_on);
        for (i, w) in words.iter().enumerate() {
            vm.mem[orig as usize + i] = *w;
        }
        vm.mem[orig as usize + words.len()] = 0xF025;
        vm.r[7] = 0xFDFF;
        vm
    }

    fn rd(&self, a: u16) -> u16 {
        self.mem[a as usize]
    }
    fn wr(&mut self, a: u16, v: u16) {
        self.mem[a as usize] = v;
        self.last_write = Some(a);
    }
    fn set(&mut self, dr: usize, v: u16) {
        self.r[dr] = v;
        self.cc = cc_of(v);
    }

    /// Execute instruction word `w`; PC has already been incremented past it.
    /// On `Exit`, `Rti` and `Unspecified("...-eof")` nothing has changed.
    pub fn step(&mut self, w: u16, io: &mut Io) -> Event {
        let dr = ((w >> 9) & 7) as usize;
        let sr1 = ((w >> 6) & 7) as usize;
        match w >> 12 {
            0x0 => {
                if ((w >> 9) & 7) as u8 & self.cc != 0 {
                    self.pc = self.pc.wrapping_add(sx(9, w));
                }
            }
            0x1 | 0x5 => {
                let b = if w & 0x20 != 0 { sx(5, w) } else { self.r[(w & 7) as usize] };
                let a = self.r[sr1];
                let v = if w >> 12 == 1 { a.wrapping_add(b) } else { a & b };
                self.set(dr, v);
            }
            0x2 => {
                let v = self.rd(self.pc.wrapping_add(sx(9, w)));
                self.set(dr, v);
            }
            0xA => {
                let p = self.rd(self.pc.wrapping_add(sx(9, w)));
                let v = self.rd(p);
                self.set(dr, v);
            }
            0x6 => {
                let v = self.rd(self.r[sr1].wrapping_add(sx(6, w)));
                self.set(dr, v);
            }
            0xE => {
                let v = self.pc.wrapping_add(sx(9, w));
                self.set(dr, v);
            }
            0x3 => {
                let a = self.pc.wrapping_add(sx(9, w));
                self.wr(a, self.r[dr]);
            }
            0xB => {
                let p = self.rd(self.pc.wrapping_add(sx(9, w)));
                self.wr(p, self.r[dr]);
            }
            0x7 => {
                let a = self.r[sr1].wrapping_add(sx(6, w));
                self.wr(a, self.r[dr]);
            }
            0x9 => {
                let v = !self.r[sr1];
                self.set(dr, v);
            }
            0xC => self.pc = self.r[sr1],
            0x4 => {
                // R7 <- PC, then PC <- target (2nd-edition order, which lace follows; for
                // `JSRR R7` the 3rd-edition order gives a different PC: see `alternative`)
                let t = self.pc;
                self.r[7] = t;
                if w & 0x800 != 0 {
                    self.pc = t.wrapping_add(sx(11, w));
                } else {
                    self.pc = self.r[sr1];
                }
            }
            0xD => {
                if !self.stack_on {
                    return Event::Exit(1);
                }
                match (w >> 10) & 3 {
                    0b01 => {
                        // PUSH (for `push r7` see `push_r7_alternative`)
                        let v = self.r[sr1];
                        self.r[7] = self.r[7].wrapping_sub(1);
                        self.wr(self.r[7], v);
                    }
                    0b00 => {
                        let v = self.rd(self.r[7]);
                        self.r[7] = self.r[7].wrapping_add(1);
                        self.r[sr1] = v;
                    }
                    0b11 => {
                        self.r[7] = self.r[7].wrapping_sub(1);
                        self.wr(self.r[7], self.pc);
                        self.pc = self.pc.wrapping_add(sx(10, w));
                    }
                    _ => {
                        self.pc = self.rd(self.r[7]);
                        self.r[7] = self.r[7].wrapping_add(1);
                    }
                }
            }
            0x8 => return Event::Rti,
            _ => return self.trap(w & 0xFF, io),
        }
        Event::Done
    }

    fn trap(&mut self, vect: u16, io: &mut Io) -> Event {
        match vect {
            0x20 | 0x23 => {
                let Some(&b) = io.input.get(io.pos) else {
                    return Event::Unspecified("input-eof");
                };
                io.pos += 1;
                if vect == 0x23 {
                    io.out.push(Out::Prompt);
                }
                if b < 0x80 {
                    self.r[0] = b as u16;
                    if vect == 0x23 {
                        io.put(b as u32);
                    }
                    Event::Done
                } else {
                    // which value R0 gets (and what IN echoes) for a non-ASCII byte is not
                    // specified; exactly one byte is consumed
                    self.r[0] = io.non_ascii_r0.unwrap_or(b as u16);
                    Event::Unspecified("non-ascii-input")
                }
            }
            0x21 => {
                io.put((self.r[0] & 0xFF) as u32);
                Event::Done
            }
            0x22 => {
                let mut a = self.r[0];
                for _ in 0..0x10000 {
                    let w = self.rd(a);
                    if w == 0 {
                        return Event::Done;
                    }
                    if w & 0xFF == 0 {
                        return Event::Unspecified("puts-word-with-zero-low-byte");
                    }
                    io.put((w & 0xFF) as u32);
                    a = a.wrapping_add(1);
                }
                Event::Unspecified("puts-without-terminator")
            }
            0x24 => {
                let mut a = self.r[0];
                for _ in 0..0x10000 {
                    let w = self.rd(a);
                    if w == 0 {
                        return Event::Done;
                    }
                    if w & 0xFF == 0 {
                        return Event::Unspecified("putsp-zero-low-byte");
                    }
                    io.put((w & 0xFF) as u32);
                    if w >> 8 == 0 {
                        // odd length: the ISA requires the next word to be the x0000 terminator
                        return if self.rd(a.wrapping_add(1)) == 0 {
                            Event::Done
                        } else {
                            Event::Unspecified("putsp-odd-word-not-last")
                        };
                    }
                    io.put((w >> 8) as u32);
                    a = a.wrapping_add(1);
                }
                Event::Unspecified("putsp-without-terminator")
            }
            0x25 => {
                self.pc = 0xFFFF;
                io.puts("\n      Halted\n");
                Event::Halt
            }
            0x26 => {
                io.puts(&format!("{}", self.r[0] as i16));
                Event::Done
            }
            0x27 => {
                // minimal-mode register listing (format pinned by tests/expected/check_every_command)
                for i in 0..8 {
                    io.puts(&format!("R{} x{:04x}\n", i, self.r[i]));
                }
                io.puts(&format!("PC x{:04x}\n", self.pc));
                io.puts(&format!("CC {:03b}\n", self.cc));
                Event::Done
            }
            _ => Event::Exit(0xEE),
        }
    }

    pub fn in_user_space(&self, a: u16) -> bool {
        a >= self.orig && a < USER_END
    }
}

/// Alternative, equally ISA-conformant results (see DESIGN.md Appendix A):
/// `JSRR R7` may jump to the old or the new R7; `PUSH R7` may store the value before or after
/// the decrement. Given the state *before* the instruction and the primary result, returns the
/// other accepted result, if the word is one of these.
pub fn alternative(before: &Vm, after: &Vm, w: u16) -> Option<Vm> {
    if w >> 12 == 0x4 && w & 0x800 == 0 && (w >> 6) & 7 == 7 {
        // primary: PC = new R7 (= old PC, falls through); alternative: PC = old R7
        let mut alt = after.clone();
        alt.pc = before.r[7];
        return Some(alt);
    }
    if before.stack_on && w >> 12 == 0xD && (w >> 10) & 3 == 0b01 && (w >> 6) & 7 == 7 {
        // primary: stores old R7; alternative: stores the decremented R7
        let mut alt = after.clone();
        let sp = after.r[7];
        alt.mem[sp as usize] = sp;
        return Some(alt);
    }
    None
}

// ---------------------------------------------------------------------------------------------
// Whole runs

#[derive(Clone, Debug, PartialEq, Eq)]
pub enum RunStop {
    /// HALT executed or PC became 0xFFFF: exit 0
    Normal,
    /// exit with status (0xEE: PC left user space / unknown trap; 1: stack gate)
    Exit(i32),
    /// executed exactly the budget
    OutOfFuel,
    /// the run reached something the claim does not cover; comparison stops here
    Unspecified(&'static str),
}

#[derive(Clone, Debug)]
pub struct RefRun {
    pub stop: RunStop,
    pub out: Vec<Out>,
    pub consumed: usize,
    pub steps: u64,
    pub vm: Vm,
    pub halted_by_trap: bool,
    /// the run stopped because an instruction word was refused (unknown trap, stack gate): the
    /// implementation has dispatched it without executing anything
    pub refused_word: bool,
    pub executed_reg_trap: bool,
    pub printed_escape: bool,
    /// addresses instructions were fetched from were all inside [orig, 0xFE00)
    pub fetches_in_bounds: bool,
    pub features: RunFeatures,
}

#[derive(Clone, Debug, Default)]
pub struct RunFeatures {
    pub taken_backward_branch: bool,
    pub subroutine_return: bool,
    pub store_into_code_then_executed: bool,
    pub trap_output: bool,
    pub input_read: bool,
    pub stack_op: bool,
}

/// Run under an instruction budget. `budget` instructions executed without stopping = OutOfFuel.
pub fn run(mut vm: Vm, input: &[u8], budget: u64, non_ascii_r0: Option<u16>) -> RefRun {
    let mut io = Io::new(input);
    io.non_ascii_r0 = non_ascii_r0;
    let mut steps = 0u64;
    let mut feats = RunFeatures::default();
    let mut fetches_in_bounds = true;
    let mut executed_reg_trap = false;
    let mut halted_by_trap = false;
    let mut refused_word = false;
    let mut written: std::collections::BTreeSet<u16> = Default::default();
    let stop = loop {
        // (the budget is checked first, as lace's fuel hook ticks at the top of its run loop: a run
        // that would stop on the very iteration after its last budgeted instruction is out of fuel
        // in both)
        if steps == budget {
            break RunStop::OutOfFuel;
        }
        if vm.pc == 0xFFFF {
            break RunStop::Normal;
        }
        if !vm.in_user_space(vm.pc) {
            break RunStop::Exit(0xEE);
        }
        let at = vm.pc;
        if !vm.in_user_space(at) {
            fetches_in_bounds = false;
        }
        if written.contains(&at) {
            feats.store_into_code_then_executed = true;
        }
        let w = vm.rd(at);
        vm.pc = vm.pc.wrapping_add(1);
        let before_pc = vm.pc;
        // track stores for the self-modification class
        let store_addr = match w >> 12 {
            0x3 => Some(vm.pc.wrapping_add(sx(9, w))),
            0xB => Some(vm.rd(vm.pc.wrapping_add(sx(9, w)))),
            0x7 => Some(vm.r[((w >> 6) & 7) as usize].wrapping_add(sx(6, w))),
            _ => None,
        };
        let out_before = io.out.len();
        let in_before = io.pos;
        let ev = vm.step(w, &mut io);
        match ev {
            Event::Done | Event::Halt => {}
            Event::Exit(code) => {
                vm.pc = at.wrapping_add(1);
                refused_word = true;
                break RunStop::Exit(code);
            }
            Event::Rti => {
                vm.pc = at;
                break RunStop::Unspecified("rti");
            }
            Event::Unspecified("non-ascii-input") => {}
            Event::Unspecified(kind) => {
                vm.pc = at;
                break RunStop::Unspecified(kind);
            }
        }
        steps += 1;
        if let Some(a) = store_addr {
            written.insert(a);
        }
        if io.out.len() > out_before && w >> 12 == 0xF {
            feats.trap_output = true;
        }
        if io.pos > in_before {
            feats.input_read = true;
        }
        if w >> 12 == 0 && vm.pc != before_pc && vm.pc <= at {
            feats.taken_backward_branch = true;
        }
        if (w >> 12 == 0xC && (w >> 6) & 7 == 7) || (w >> 12 == 0xD && (w >> 10) & 3 == 0b10) {
            feats.subroutine_return = true;
        }
        if w >> 12 == 0xD {
            feats.stack_op = true;
        }
        if w >> 12 == 0xF && w & 0xFF == 0x27 {
            executed_reg_trap = true;
        }
        if ev == Event::Halt {
            halted_by_trap = true;
        }
    };
    let printed_escape = io.out.iter().any(|o| *o == Out::Ch(0x1b));
    RefRun {
        stop,
        consumed: io.pos,
        out: io.out,
        steps,
        vm,
        halted_by_trap,
        refused_word,
        executed_reg_trap,
        printed_escape,
        fetches_in_bounds,
        features: feats,
    }
}

// ---------------------------------------------------------------------------------------------
// Output comparison

/// Decode what lace wrote to stdout into characters: UTF-8 if valid (lace prints `char`s, so
/// bytes >= 0x80 arrive as two-byte sequences), else byte by byte. SGR sequences are stripped by
/// the caller when appropriate.
pub fn decode_out(bytes: &[u8]) -> Vec<u32> {
    match std::str::from_utf8(bytes) {
        Ok(s) => s.chars().map(|c| c as u32).collect(),
        Err(_) => bytes.iter().map(|b| *b as u32).collect(),
    }
}

/// Does `actual` match the expected output (with `Prompt` wildcards)? Returns the index of the
/// first mismatch in `actual`.
pub fn match_out(expected: &[Out], actual: &[u32]) -> Result<(), usize> {
    let mut i = 0usize;
    let mut k = 0usize;
    while k < expected.len() {
        match &expected[k] {
            Out::Ch(c) => {
                if actual.get(i) != Some(c) {
                    return Err(i);
                }
                i += 1;
                k += 1;
            }
            Out::Prompt => {
                // skip any text up to the next expected character
                k += 1;
                match expected.get(k) {
                    Some(Out::Ch(c)) => {
                        while i < actual.len() && actual[i] != *c {
                            i += 1;
                        }
                    }
                    _ => {
                        // prompt at the very end (echo unspecified): accept the rest
                        return Ok(());
                    }
                }
            }
        }
    }
    if i == actual.len() {
        Ok(())
    } else {
        Err(i)
    }
}

pub fn out_to_string(out: &[Out]) -> String {
    out.iter()
        .map(|o| match o {
            Out::Ch(c) => char::from_u32(*c).unwrap_or('?').to_string(),
            Out::Prompt => "<prompt?>".to_string(),
        })
        .collect()
}
