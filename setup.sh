#!/bin/bash
# Build the harness (both profiles) and the plain lace binaries from files on disk only.
set -e
cd "$(dirname "$0")"
export CARGO_NET_OFFLINE=true
./check --build thorough
