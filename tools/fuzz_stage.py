#!/usr/bin/env python3
"""tools/fuzz_stage.py <ID> <harness-dir> <verif-bin> <evidence-file> <seed>
Coverage-guided stage (libFuzzer) of the thorough tier.

Two kinds of target, both built against the current tree with --cfg lace_verif:
 * byte-level (C05: asm_total on assembler text, C14: cmd_total on debugger scripts): totality
   oracles inside the target, raw UTF-8 inputs seeded from fuzz/seeds with a dictionary;
 * structure-aware (prop_fuzz, every property whose check runs in-process): the input is the
   random tape of the property's own proptest generators, the verdict is the strict judge used
   for replay files (harness/src/fuzzmode.rs). The target shrinks a failure with the strategy's
   value tree and writes it as an ordinary replay file; it keeps fuzzing with that signature
   excluded.
Fixed work (-runs, -seed per process, fresh corpus) - no time limit decides anything. Every
reported failure and every crash artifact is re-judged by `lace-verif replay` (profile A) before
it counts. Exit status: 0 nothing found, 1 confirmed violation (VIOLATION lines), 3 stage
unavailable (build failed)."""
import glob, json, os, shutil, subprocess, sys, tempfile

ID, HARNESS, BIN, EVID, SEED = sys.argv[1:6]
SEED = int(SEED)
NPROC = int(os.environ.get("VERIF_FUZZ_PROCS", "12"))
SCALE = float(os.environ.get("VERIF_FUZZ_SCALE", "1"))
BYTE = {
    "C05": ("asm_total", "asm", "asm.dict", 1024, 120_000, 1),
    "C14": ("cmd_total", "cmd", "cmd.dict", 256, 60_000, 3),
}
# runs per process of the structure-aware target (about 2-3 minutes each on this machine)
PROP = {
    "C01": 160_000, "C02": 300_000, "C03": 90_000, "C04": 160_000, "C05": 240_000, "C09": 60_000, "C10": 55_000,
    "C11": 65_000, "C12": 45_000, "C13": 70_000, "C14": 100_000, "C15": 70_000, "C16": 110_000, "C17": 25_000,
    "C18": 70_000, "C19": 55_000, "C20": 380_000,
}
env = dict(os.environ, CARGO_NET_OFFLINE="true", RUSTFLAGS="--cfg lace_verif")
notes = {}
confirmed = 0
vdir = os.path.join(os.path.dirname(EVID), "violations", ID)
scratch = os.environ.get("VERIF_SCRATCH", os.path.join(os.path.dirname(HARNESS), "target"))
os.makedirs(scratch, exist_ok=True)


def finish(code):
    try:
        ev = json.load(open(EVID))
        ev["coverage"]["libfuzzer"] = notes
        if code == 1:
            ev["violations"] = ev.get("violations", 0) + confirmed
        json.dump(ev, open(EVID, "w"), indent=1)
    except Exception as e:
        print("fuzz stage: cannot update evidence:", e, file=sys.stderr)
    sys.exit(code)


def build(target, sanitizer):
    """ASan builds live in fuzz/target, uninstrumented-for-memory (fast) ones in fuzz/target-fast"""
    tdir = os.path.join(HARNESS, "fuzz", "target" if sanitizer else "target-fast")
    cmd = ["cargo", "+nightly", "fuzz", "build", "--target-dir", tdir] + (["-s", "none"] if not sanitizer else []) + [target]
    b = subprocess.run(cmd, cwd=HARNESS, env=env, capture_output=True, text=True)
    if b.returncode != 0:
        print(f"fuzz stage: build of {target} failed (stage skipped):", b.stderr[-600:], file=sys.stderr)
        return None
    return os.path.join(tdir, "x86_64-unknown-linux-gnu/release", target)


def rejudge(path):
    """strict re-judgement of a replay document; True = an unknown failure reproduces"""
    r = subprocess.run([BIN, "replay", ID, path], capture_output=True, text=True, env=dict(os.environ, VERIF_PROFILE="A"))
    return r.returncode != 0 or ('"fail":{' in r.stdout and '"known":true' not in r.stdout)


def report(doc, tag):
    global confirmed
    os.makedirs(vdir, exist_ok=True)
    rp = os.path.join(vdir, f"{ID}-libfuzzer-{tag}.json")
    json.dump(doc, open(rp, "w"), indent=1, ensure_ascii=False)
    if rejudge(rp):
        confirmed += 1
        print(f"violation [{doc.get('signature', ID + ':libfuzzer')}] {str(doc.get('message', '')).splitlines()[0] if doc.get('message') else ''}")
        print(f"VIOLATION property={ID} replay={rp}")
        return True
    os.remove(rp)
    return False


def run_procs(exe, work, runs, max_len, extra, seeds_from, envx, slow_exe=None, nslow=0):
    """`nslow` of the processes run `slow_exe` (the AddressSanitizer build) with a third of the runs"""
    procs = []
    fast_exe, fast_runs = exe, runs
    for i in range(NPROC):
        exe, runs = (slow_exe, max(1000, fast_runs // 3)) if (slow_exe and i < nslow) else (fast_exe, fast_runs)
        corpus = os.path.join(work, f"corpus{i}")
        art = os.path.join(work, f"art{i}") + "/"
        os.makedirs(corpus)
        os.makedirs(art)
        for f in glob.glob(os.path.join(seeds_from, "*")):
            shutil.copy(f, corpus)
        cmd = [exe, corpus, f"-runs={runs}", f"-seed={SEED * 1000 + i + 1}", f"-max_len={max_len}", "-len_control=0",
               f"-artifact_prefix={art}", "-timeout=60", "-rss_limit_mb=3000"] + extra
        e = dict(envx, VERIF_FUZZ_OUT=os.path.join(work, f"out{i}"))
        procs.append((i, art, subprocess.Popen(cmd, stdin=subprocess.DEVNULL, stdout=subprocess.DEVNULL, stderr=open(os.path.join(work, f"log{i}"), "w"), env=e)))
    total, crashes = 0, []
    for i, art, p in procs:
        p.wait()
        log = open(os.path.join(work, f"log{i}"), errors="replace").read()
        for line in log.splitlines():
            if line.startswith("Done ") and " runs in " in line:
                total += int(line.split()[1])
        crashes += sorted(glob.glob(art + "crash-*")) + sorted(glob.glob(art + "timeout-*")) + sorted(glob.glob(art + "oom-*"))
    return total, crashes


def byte_stage():
    target, seeds, dic, max_len, runs, mask = BYTE[ID]
    note = {"target": target, "processes": NPROC, "runs_per_process": runs, "max_len": max_len}
    notes["byte_level"] = note
    exe = build(target, True)
    if exe is None:
        note["status"] = "build failed, stage skipped"
        return
    work = tempfile.mkdtemp(prefix="lace-fuzz-", dir=scratch)
    total, crashes = run_procs(exe, work, runs, max_len, [f"-dict={os.path.join(HARNESS, 'fuzz', dic)}", f"-close_fd_mask={mask}"],
                               os.path.join(HARNESS, "fuzz/seeds", seeds), dict(os.environ))
    found = 0
    for c in crashes[:20]:
        data = open(c, "rb").read()
        if os.path.basename(c).startswith(("timeout", "oom")):
            print(f"fuzz stage: {os.path.basename(c)} (infrastructure: not a verdict)", file=sys.stderr)
            continue
        if ID == "C05":
            if not data:
                continue
            try:
                text = data[1:].decode("utf-8")
            except UnicodeDecodeError:
                continue
            case = {"text": text, "stack": bool(data[0] & 1), "mutated": True, "kind": "libfuzzer"}
        else:
            try:
                script = data.decode("utf-8")
            except UnicodeDecodeError:
                continue
            cmds = [x for x in script.replace(";", "\n").split("\n")]
            case = {"Transport": {"commands": cmds, "split": len(cmds), "sep_arg": False, "sep_stdin": False, "decorate": 3}}
        doc = {"property": ID, "signature": f"{ID}:libfuzzer", "message": "crash artifact of the libFuzzer stage", "case": case}
        if report(doc, os.path.basename(c)[-16:]):
            found += 1
    shutil.rmtree(work, ignore_errors=True)
    note.update({"status": "ran", "total_execs": total, "crash_artifacts": len(crashes), "confirmed_violations": found, "seed": SEED})


def prop_stage():
    runs = max(1000, int(PROP[ID] * SCALE))
    note = {"target": "prop_fuzz (tape of the property's own generators -> strict replay judge)", "processes": NPROC, "runs_per_process": runs, "max_len": 8192}
    notes["structure_aware"] = note
    exe = build("prop_fuzz", False)
    if exe is None:
        note["status"] = "build failed, stage skipped"
        return
    # lace contains `unsafe` (unchecked indexing, lifetime extension): a quarter of the processes run
    # the AddressSanitizer build so that silent memory corruption becomes a visible failure
    asan = build("prop_fuzz", True)
    nslow = NPROC // 4 if asan else 0
    note["asan_processes"] = nslow
    work = tempfile.mkdtemp(prefix="lace-pfuzz-", dir=scratch)
    seeds = os.path.join(work, "seeds")
    subprocess.run([BIN, "fuzzseeds", ID, seeds, "64", str(SEED)], capture_output=True, env=dict(os.environ, VERIF_PROFILE="A"))
    envx = dict(os.environ, VERIF_FUZZ_ID=ID, NO_COLOR="1")
    envx.pop("CLICOLOR_FORCE", None)
    total, crashes = run_procs(exe, work, runs, 8192, ["-close_fd_mask=2"], seeds, envx, asan, nslow)
    stats = {}
    found = 0
    seen = set()
    for i in range(NPROC):
        out = os.path.join(work, f"out{i}")
        try:
            for k, v in json.load(open(os.path.join(out, "stats.json"))).items():
                stats[k] = stats.get(k, 0) + v
        except Exception:
            pass
        for f in sorted(glob.glob(os.path.join(out, "violation-*.json"))):
            doc = json.load(open(f))
            if doc.get("signature") in seen:
                continue
            seen.add(doc.get("signature"))
            if report(doc, os.path.basename(f)[10:26]):
                found += 1
    infra = 0
    for c in crashes[:20]:
        base = os.path.basename(c)
        if base.startswith(("timeout", "oom")):
            print(f"fuzz stage: {base} (infrastructure: not a verdict)", file=sys.stderr)
            infra += 1
            continue
        # the process died inside a case (abort, stack overflow, harness bug): decode the tape, judge strictly
        r = subprocess.run([BIN, "fuzzcase", ID, c], capture_output=True, text=True, env=dict(os.environ, VERIF_PROFILE="A"))
        if r.returncode != 0 or not r.stdout.strip():
            infra += 1
            continue
        doc = json.loads(r.stdout)
        doc.update({"signature": f"{ID}:libfuzzer-crash", "message": "the fuzz process died while judging this case"})
        if report(doc, base[-16:]):
            found += 1
        else:
            print(f"fuzz stage: {base}: the process died but the case passes the strict judge (infrastructure: not a verdict)", file=sys.stderr)
            infra += 1
    shutil.rmtree(work, ignore_errors=True)
    note.update({"status": "ran", "total_execs": total, "crash_artifacts": len(crashes), "infrastructure_events": infra,
                 "confirmed_violations": found, "seed": SEED, "cases": stats})


if ID in BYTE:
    byte_stage()
if ID in PROP:
    prop_stage()
if not notes:
    sys.exit(0)
if all(n.get("status", "").startswith("build failed") for n in notes.values()):
    finish(3)
finish(1 if confirmed else 0)
