#!/usr/bin/env python3
"""tools/fuzz_stage.py <ID> <harness-dir> <verif-bin> <evidence-file> <seed>
Coverage-guided stage of the thorough tier for the two totality properties (C05: asm_total,
C14: cmd_total). Builds the libFuzzer target against the current tree (cfg lace_verif), runs N
processes with fixed -seed/-runs on a fresh corpus seeded from fuzz/seeds, re-judges every crash
artifact with the strict in-process check of the harness, records the stage in the evidence file.
Exit status: 0 nothing found, 1 confirmed violation (prints VIOLATION lines), 3 stage unavailable."""
import json, os, shutil, subprocess, sys, tempfile, glob

ID, HARNESS, BIN, EVID, SEED = sys.argv[1:6]
SEED = int(SEED)
target, seeds, dic, max_len, runs, mask = {
    "C05": ("asm_total", "asm", "asm.dict", 1024, 120_000, 1),
    "C14": ("cmd_total", "cmd", "cmd.dict", 256, 60_000, 3),
}[ID]
NPROC = 12
env = dict(os.environ, CARGO_NET_OFFLINE="true", RUSTFLAGS="--cfg lace_verif")
note = {"target": target, "processes": NPROC, "runs_per_process": runs, "max_len": max_len}

def finish(code, extra):
    note.update(extra)
    try:
        ev = json.load(open(EVID))
        ev["coverage"]["libfuzzer"] = note
        if code == 1:
            ev["violations"] = ev.get("violations", 0) + note.get("confirmed_violations", 0)
        json.dump(ev, open(EVID, "w"), indent=1)
    except Exception as e:
        print("fuzz stage: cannot update evidence:", e, file=sys.stderr)
    sys.exit(code)

b = subprocess.run(["cargo", "+nightly", "fuzz", "build", target], cwd=HARNESS, env=env, capture_output=True, text=True)
if b.returncode != 0:
    print("fuzz stage: build failed (stage skipped):", b.stderr[-400:], file=sys.stderr)
    finish(3, {"status": "build failed, stage skipped"})
exe = os.path.join(HARNESS, "fuzz/target/x86_64-unknown-linux-gnu/release", target)
work = tempfile.mkdtemp(prefix="lace-fuzz-", dir=os.environ.get("VERIF_SCRATCH", os.path.join(os.path.dirname(HARNESS), "target")))
procs = []
for i in range(NPROC):
    corpus = os.path.join(work, f"corpus{i}"); art = os.path.join(work, f"art{i}") + "/"
    os.makedirs(corpus); os.makedirs(art)
    for f in glob.glob(os.path.join(HARNESS, "fuzz/seeds", seeds, "*")):
        shutil.copy(f, corpus)
    cmd = [exe, corpus, f"-runs={runs}", f"-seed={SEED * 1000 + i + 1}", f"-max_len={max_len}", "-len_control=0",
           f"-dict={os.path.join(HARNESS, 'fuzz', dic)}", f"-artifact_prefix={art}", f"-close_fd_mask={mask}", "-timeout=20", "-rss_limit_mb=3000"]
    procs.append((i, art, subprocess.Popen(cmd, stdin=subprocess.DEVNULL, stdout=subprocess.DEVNULL, stderr=open(os.path.join(work, f"log{i}"), "w"))))
crashes = []
total = 0
for i, art, p in procs:
    p.wait()
    log = open(os.path.join(work, f"log{i}"), errors="replace").read()
    for line in log.splitlines():
        if line.startswith("Done ") and " runs in " in line:
            total += int(line.split()[1])
        elif line.startswith("#") and "\t" in line:
            pass
    crashes += sorted(glob.glob(art + "crash-*")) + sorted(glob.glob(art + "timeout-*")) + sorted(glob.glob(art + "oom-*"))
confirmed = 0
vdir = os.path.join(os.path.dirname(EVID), "violations", ID)
for c in crashes[:20]:
    data = open(c, "rb").read()
    if os.path.basename(c).startswith(("timeout", "oom")):
        print(f"fuzz stage: {os.path.basename(c)} (infrastructure: not a verdict)", file=sys.stderr)
        continue
    if ID == "C05":
        if not data:
            continue
        try:
            text = data[1:].decode("utf-8")
        except UnicodeDecodeError:
            continue
        case = {"text": text, "stack": bool(data[0] & 1), "mutated": True, "kind": "libfuzzer"}
    else:
        try:
            script = data.decode("utf-8")
        except UnicodeDecodeError:
            continue
        cmds = [x for x in script.replace(";", "\n").split("\n")]
        case = {"Transport": {"commands": cmds, "split": len(cmds), "sep_arg": False, "sep_stdin": False, "decorate": 3}}
    os.makedirs(vdir, exist_ok=True)
    rp = os.path.join(vdir, f"{ID}-libfuzzer-{os.path.basename(c)[-16:]}.json")
    json.dump({"property": ID, "signature": f"{ID}:libfuzzer", "message": "crash artifact of the libFuzzer stage", "case": case}, open(rp, "w"), indent=1, ensure_ascii=False)
    r = subprocess.run([BIN, "replay", ID, rp], capture_output=True, text=True, env=dict(os.environ, VERIF_PROFILE="A"))
    out = r.stdout
    if r.returncode != 0 or ('"fail":{' in out and '"known":true' not in out):
        confirmed += 1
        print(f"VIOLATION property={ID} replay={rp}")
    else:
        os.remove(rp)
shutil.rmtree(work, ignore_errors=True)
finish(1 if confirmed else 0, {"status": "ran", "total_execs": total, "crash_artifacts": len(crashes), "confirmed_violations": confirmed, "seed": SEED})
