#!/usr/bin/env python3
"""Regenerate MANIFEST.json from tools/manifest_src.json (claimed checks) + properties.jsonl."""
import json, os, subprocess
here = os.path.dirname(os.path.dirname(os.path.abspath(__file__)))
src = json.load(open(os.path.join(here, "tools", "manifest_src.json")))
props = [json.loads(l) for l in open(os.path.join(here, "properties.jsonl"))]
claimed = {c["property_id"] for c in src["checks"]}
checks = []
for c in src["checks"]:
    pid = c["property_id"]
    checks.append({
        "property_id": pid,
        "quick_cmd": f"./check {pid} quick",
        "thorough_cmd": f"./check {pid} thorough",
        "evidence_file": f"/verif/evidence/{pid}.json",
        "replay_cmd_template": f"./check {pid} --replay {{path}}",
        "engine": "lace-verif",
        "level_claimed": {"category": c["category"], "text": c["text"], "design_ref": f"DESIGN.md §4 {pid}"},
        "level_note": c["note"],
        "technique": c["technique"],
    })
na = [{"property_id": p["id"], "reason": src["pending_reason"]} for p in props if p["id"] not in claimed]
hooks = subprocess.run(["git", "-C", "/repo", "log", "--format=%h %s", "--grep=^verif hook"], capture_output=True, text=True).stdout.strip().splitlines()
man = {
    "version": 1,
    "setup_cmd": "./setup.sh",
    "hooks": {
        "guard": "--cfg lace_verif",
        "enable": "RUSTFLAGS=\"--cfg lace_verif\" cargo build (the harness crate /verif/harness depends on lace by path; ./check does this)",
        "baseline_off_cmd": "cd /repo && cargo test --workspace --no-fail-fast --offline",
        "source_commits": hooks,
        "add_only": True,
    },
    "engines": [{
        "name": "lace-verif",
        "path": "/verif/harness",
        "serves_properties": sorted(claimed),
        "kind_free_text": "Rust harness: proptest strategies with fixed seeds and shrinking, exhaustive bounded enumeration, reference models (RefAsm, RefVM, RefDbg, RefCmd, RefEdit), 16 worker processes with redirected standard streams; libFuzzer targets under /verif/fuzz for the two totality properties",
    }],
    "checks": checks,
    "not_applicable": na,
    "notes": src["notes"],
}
json.dump(man, open(os.path.join(here, "MANIFEST.json"), "w"), indent=1)
print("claimed:", sorted(claimed), "not claimed:", [n["property_id"] for n in na])
