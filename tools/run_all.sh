#!/bin/bash
# tools/run_all.sh quick|thorough [seed]   - run every claimed check, print one line per property
cd "$(dirname "$0")/.."
TIER="${1:-quick}"; export VERIF_SEED="${2:-0}"
rc_all=0
for id in $(python3 -c "import json; print(' '.join(c['property_id'] for c in json.load(open('MANIFEST.json'))['checks']))"); do
    out=$(./check "$id" "$TIER" 2>/tmp/run_all_$id.err); rc=$?
    echo "$(echo "$out" | tail -1) rc=$rc"
    echo "$out" | grep -E '^(VIOLATION|INCONCLUSIVE)' | head -5
    [ $rc -ne 0 ] && rc_all=1
done
exit $rc_all
