#!/bin/bash
# tools/seed_all.sh [pattern]   re-run every stored seeded change against the checks that meta.json
# records as catching it (each in a scratch copy of /repo via audit/run_mutant.sh; /repo untouched).
cd "$(dirname "$0")/.."
PAT="${1:-.}"
for d in seeded/*/; do
    n=$(basename "$d")
    echo "$n" | grep -q "$PAT" || continue
    ids=$(python3 - "$d/meta.json" <<'PY'
import json,re,sys
m=json.load(open(sys.argv[1])); ids=[]
for c in m.get("checks_run",[]):
    if str(c.get("result","")).startswith("CAUGHT"):
        for i in re.findall(r"\bC\d\d\b", c.get("check","")):
            if i not in ids: ids.append(i)
print(",".join(ids) if ids else m.get("property",""))
PY
)
    audit/run_mutant.sh "$d/patch.diff" "$ids" 2>&1 | grep '^RESULT' | sed "s/^RESULT patch.diff/SEED $n/"
done
