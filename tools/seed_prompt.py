#!/usr/bin/env python3
"""tools/seed_prompt.py <round-letter> <ID>...
Prepares a seeded-change task for a fresh sub-agent: a scratch worktree /tmp/seed-<ID><round> of /repo
HEAD, an output dir, and /tmp/seed-prompt-<ID><round>.txt. The prompt contains only the property's
text, what earlier seeded changes for it did (so that the new one differs), and a description of a
strong tester in general terms - nothing from /verif's machinery."""
import glob, json, os, subprocess, sys
rnd, ids = sys.argv[1], sys.argv[2:]
props = {json.loads(l)['id']: json.loads(l) for l in open('/verif/properties.jsonl')}
TEMPLATE = open(os.path.join(os.path.dirname(__file__), 'seed_prompt.txt')).read()
for pid in ids:
    name = pid + rnd
    wt, out = f"/tmp/seed-{name}", f"/tmp/seed-{name}-out"
    earlier = ""
    for f in sorted(glob.glob(f"/verif/seeded/{pid}-*/meta.json")):
        earlier += " - " + json.load(open(f))["summary"][:700] + "\n"
    p = props[pid]
    open(f"/tmp/seed-prompt-{name}.txt", "w").write(TEMPLATE.format(wt=wt, out=out, id=pid, title=p['title'], statement=p['statement'], quant=p['quantifier']['text'], earlier=earlier))
    os.makedirs(out, exist_ok=True)
    subprocess.run(["git", "-C", "/repo", "worktree", "add", "-q", "--detach", wt, "HEAD"], check=True)
    print(name)
