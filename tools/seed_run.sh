#!/bin/bash
# tools/seed_run.sh <seeded-dir> <ID>[,<ID>...] [tier]
# Applies seeded/<dir>/patch.diff to /repo, runs the named checks, undoes the patch straight afterwards.
set -u
D="$(readlink -f "$1")"; IDS="$2"; TIER="${3:-quick}"
cd "$(dirname "$0")/.."
git -C /repo diff --quiet || { echo "SEEDRUN: /repo is not clean"; exit 9; }
git -C /repo apply "$D/patch.diff" || { echo "SEEDRUN $(basename $D): patch does not apply"; exit 3; }
trap 'git -C /repo checkout -- .' EXIT
for ID in ${IDS//,/ }; do
    out=$(VERIF_EVIDENCE_DIR=/tmp/seedrun-evidence ./check "$ID" "$TIER" 2>&1); rc=$?
    sigs=$(echo "$out" | grep -oE '^violation \[[^]]*\]' | sort | uniq -c | sort -rn | head -4 | tr '\n' ';')
    case $rc in
        1) echo "SEEDRUN $(basename $D) $ID $TIER CAUGHT $sigs" ;;
        0) echo "SEEDRUN $(basename $D) $ID $TIER MISSED" ;;
        *) echo "SEEDRUN $(basename $D) $ID $TIER INCONCLUSIVE rc=$rc $(echo "$out" | tail -2 | tr '\n' ' ')" ;;
    esac
done
