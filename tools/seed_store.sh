#!/bin/bash
# tools/seed_store.sh <tmp-name> <stored-name>   e.g. C12e C12-e
# Stores a confirmed seeded change from /tmp/seed-<tmp-name>-out under seeded/<stored-name> and
# removes the sub-agent's scratch worktree.
set -u
T="$1"; S="$2"
cd "$(dirname "$0")/.."
mkdir -p "seeded/$S"
cp "/tmp/seed-$T-out/patch.diff" "/tmp/seed-$T-out/meta.json" "seeded/$S/"
rsync -a --exclude 'target*' "/tmp/seed-$T-out/demo" "seeded/$S/"
git -C /repo worktree remove --force "/tmp/seed-$T" 2>/dev/null
rm -rf "/tmp/seed-$T" "/tmp/seed-$T-out" "/tmp/seed-prompt-$T.txt"
git -C /repo worktree prune
ls "seeded/$S"
