#!/bin/bash
# tools/seed_verify.sh <ID> <out-dir> <demo-command...>
#   Confirms a seeded change independently in a fresh scratch worktree of /repo HEAD:
#   applies <out-dir>/patch.diff, runs the pinned test suite, runs the demo (must fail), reverts the
#   patch and runs the demo again (must pass). The demo command is run in the worktree with
#   LACE_BIN=<worktree>/target/debug/lace exported. The worktree is removed afterwards.
set -u
ID="$1"; OUT="$2"; shift 2
W=/tmp/sv-$ID-$$
git -C /repo worktree add -q --detach "$W" HEAD || exit 9
cleanup() { git -C /repo worktree remove --force "$W" >/dev/null 2>&1; rm -rf "$W"; }
trap cleanup EXIT
cd "$W"
git apply "$OUT/patch.diff" || { echo "SEED $ID: patch does not apply"; exit 3; }
cargo build --offline -q 2>/dev/null || { echo "SEED $ID: does not compile"; exit 4; }
t=$(cargo test --offline 2>&1 | grep -E 'test result' | awk '{s+=$4; f+=$6} END {print s, f}')
echo "SEED $ID: tests with the change: $t (want 72 0)"
export LACE_BIN="$W/target/debug/lace"
( "$@" ) >/tmp/sv-$ID-with.log 2>&1; with=$?
git checkout -q -- src
cargo build --offline -q 2>/dev/null
( "$@" ) >/tmp/sv-$ID-without.log 2>&1; without=$?
echo "SEED $ID: demo exit with change = $with (want != 0), without change = $without (want 0)"
[ "$t" = "72 0" ] && [ $with -ne 0 ] && [ $without -eq 0 ] && echo "SEED $ID: CONFIRMED" || echo "SEED $ID: NOT CONFIRMED"
